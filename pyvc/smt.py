"""SMT layer of pyvc: logical context of one symbolic path, quantified facts with our own
instantiation (array-property fragment, Bradley-Manna style), discharge with z3 / cvc5,
and validation of counter-models against the un-instantiated facts.

Strings are never encoded in an SMT string theory (measured: unknown/timeouts); they are
views (Array Int Int, lo, hi).  Every universally quantified fact is a Python closure
k -> BoolRef; the solver only ever sees quantifier-free formulas.
"""
from __future__ import annotations

import itertools
import subprocess
import tempfile
import time
import os
import sys

import z3

_cnt = itertools.count()
I = z3.IntSort()
ARR = z3.ArraySort(I, I)


def fresh_int(p="v"):
    return z3.Int(f"{p}!{next(_cnt)}")


def fresh_bool(p="b"):
    return z3.Bool(f"{p}!{next(_cnt)}")


class Arr:
    """array of code points of a string value: a z3 array constant, or the merge
    ite(c, a, b) of two such arrays at a control-flow join.  Reads push the ite to the
    leaves, so that every select term the solver sees is a select on an array constant
    (which is what the E-matching patterns of the quantified facts are written over)."""

    __slots__ = ("z", "c", "x", "y", "_id")

    def __init__(self, z=None, c=None, x=None, y=None):
        self.z, self.c, self.x, self.y = z, c, x, y
        self._id = z.get_id() if z is not None else ("ite", c.get_id(), x.get_id(), y.get_id())

    def __getitem__(self, i):
        if self.z is not None:
            return self.z(iv(i) if isinstance(i, int) else i)
        return z3.If(self.c, self.x[i], self.y[i])

    def get_id(self):
        return self._id

    def leaves(self):
        if self.z is not None:
            return [self.z]
        out, seen = [], set()
        for l in self.x.leaves() + self.y.leaves():
            if l.get_id() not in seen:
                seen.add(l.get_id())
                out.append(l)
        return out

    def __repr__(self):
        return str(self.z) if self.z is not None else f"ite({self.c},{self.x},{self.y})"


ARR_IDS = set()


def _mk_fn(name):
    """the code points of a string value: an uninterpreted function Int -> Int (no array
    theory: only reads occur, so extensionality and store axioms would be pure overhead)"""
    f = z3.Function(name, I, I)
    ARR_IDS.add(f.get_id())
    return f


def arr_const(name):
    return Arr(_mk_fn(name))


def arr_ite(c, x, y):
    if x.get_id() == y.get_id():
        return x
    return Arr(None, c, x, y)


def fresh_arr(p="A"):
    return Arr(_mk_fn(f"{p}!{next(_cnt)}"))


def iv(n):
    return z3.IntVal(n)


def is_conc_int(t):
    t = z3.simplify(t) if not z3.is_int_value(t) else t
    return t.as_long() if z3.is_int_value(t) else None


J = z3.Int("j!q")
IDX = z3.Function("IDX", z3.IntSort(), z3.BoolSort())


class QFact:
    """forall j. fn(j)  where j is an *absolute* index into `arr` and fn(j) mentions arr[j].
    For z3 the fact is a quantifier with the explicit patterns {arr[j]} and {IDX(j)}
    (E-matching instantiates it at every index term of arr and at every seeded bound);
    for our own instantiation / model validation fn is applied to concrete index terms."""

    __slots__ = ("name", "fn", "arr", "_q")

    def __init__(self, name, arr, fn):
        self.name = name
        self.fn = fn
        self.arr = arr
        self._q = None

    def quant(self):
        if self._q is None:
            body = self.fn(J)
            self._q = z3.ForAll([J], body, patterns=[l(J) for l in self.arr.leaves()] + [IDX(J)])
        return self._q


class IncSolver:
    """One incremental z3 solver per verification task, driven in depth-first push/pop
    discipline by the symbolic executor.  Quantified facts are asserted as pattern-annotated
    quantifiers (E-matching only); 'unsat' answers are proofs, every other answer is
    inconclusive (the standalone prove() is then used for a counter-model).
    `counts` tracks how many facts / quantified facts / bounds of the active path are
    asserted at each level, so that any state whose lists extend the asserted prefix can be
    re-activated (Executor.activate)."""

    def __init__(self, global_facts, timeout_ms=2000):
        self.s = z3.Solver()
        self.s.set("auto_config", False)
        self.s.set("smt.mbqi", False)
        self.s.set("smt.ematching", True)
        self.global_facts = global_facts
        self.nglobal = [0]
        self.counts = [[0, 0, 0]]
        self.nchecks = 0
        self.time = 0.0
        self.timeout = None
        self.set_timeout(timeout_ms)

    def set_timeout(self, ms):
        if ms != self.timeout:
            self.s.set("timeout", ms)
            self.timeout = ms

    def push(self):
        self.s.push()
        self.nglobal.append(self.nglobal[-1])
        self.counts.append(list(self.counts[-1]))

    def pop(self):
        self.s.pop()
        self.nglobal.pop()
        self.counts.pop()

    def add_fact(self, f):
        self.s.add(f)
        self.counts[-1][0] += 1

    def add_q(self, q):
        self.s.add(q.quant())
        self.counts[-1][1] += 1

    def add_bound(self, t):
        self.s.add(IDX(t))
        self.counts[-1][2] += 1

    RL_FEAS = 300000          # resource limit of feasibility / canonicalisation queries (deterministic)

    def check(self, *assumptions, timeout_ms=2000):
        """`timeout_ms` <= 500 marks a feasibility-type query: it runs under a small *resource*
        limit (z3 rlimit: deterministic, independent of machine load) -- 'unsat' arrives within a
        few thousand units when it arrives at all, anything else means 'possibly feasible'.
        Obligation queries run under a wall-clock limit and are retried by the standalone prover."""
        n = self.nglobal[-1]
        if n < len(self.global_facts):
            self.s.add(*self.global_facts[n:])
            self.nglobal[-1] = len(self.global_facts)
        if timeout_ms <= 500:
            self.s.set("rlimit", self.RL_FEAS)
            self.set_timeout(5000)
        else:
            # obligations: a *resource* limit decides (about 3x what the most expensive obligation
            # of the pinned tree needs), the wall-clock limit is only a safety net -- verdicts must
            # not depend on how busy the machine is
            self.s.set("rlimit", RL_OB_INC)
            self.set_timeout(WALL_SAFETY_MS)
        t = time.time()
        r0 = _rl(self.s) if _RLSTAT else 0
        r = self.s.check(*assumptions)
        dt = time.time() - t
        if _RLSTAT and timeout_ms > 500:
            _rl_note("inc", _rl(self.s) - r0, r, dt)
        self.time += dt
        self.nchecks += 1
        if timeout_ms > 500 and r != z3.unsat:
            INC_OPEN[0] += 1
        return r


class Ctx:
    """Logical context of one path: ground facts, quantified facts, extra index terms.
    When `sol` is set, everything added is also asserted in the shared incremental solver
    (the executor guarantees that only the path being explored adds facts)."""

    def __init__(self, sol=None):
        self.facts = []
        self.qfacts = []
        self.bounds = []
        self.cond = set()      # indices of facts that are path conditions / checked assumptions
        self.sol = sol

    def copy(self):
        c = Ctx(self.sol)
        c.facts = list(self.facts)
        c.qfacts = list(self.qfacts)
        c.bounds = list(self.bounds)
        c.cond = set(self.cond)
        return c

    def assume(self, f):
        """a fact that holds on this path only (branch condition, checked assumption)"""
        if f is True or (z3.is_expr(f) and z3.is_true(f)):
            return
        self.cond.add(len(self.facts))
        self.add(f)

    def add(self, *fs):
        for f in fs:
            if f is True or (z3.is_true(f) if z3.is_expr(f) else False):
                continue
            self.facts.append(f)
            if self.sol is not None:
                self.sol.add_fact(f)

    def addq(self, name, arr, fn):
        q = QFact(name, arr, fn)
        self.qfacts.append(q)
        if self.sol is not None:
            self.sol.add_q(q)

    def bound(self, *ts):
        for t in ts:
            if isinstance(t, int):
                t = iv(t)
            t = z3.simplify(t)
            self.bounds.append(t)
            if self.sol is not None:
                self.sol.add_bound(t)

    def snapshot(self):
        return (list(self.facts), list(self.qfacts), list(self.bounds))


def _index_terms(fmls, seen, out):
    stack = list(fmls)
    while stack:
        e = stack.pop()
        i = e.get_id()
        if i in seen:
            continue
        seen.add(i)
        if z3.is_app(e) and e.num_args() == 1 and e.decl().get_id() in ARR_IDS:
            ix = e.arg(0)
            out.setdefault(ix.get_id(), ix)
        stack.extend(e.children())


class Result:
    def __init__(self, status, model=None, n_ground=0, time_s=0.0, backend="z3", rounds=0, reason=""):
        self.status = status  # 'unsat' | 'sat' | 'unknown'
        self.model = model
        self.n_ground = n_ground
        self.time_s = time_s
        self.backend = backend
        self.rounds = rounds
        self.reason = reason
        self.validated = None


_RLSTAT = bool(os.environ.get("PYVC_RL_STATS"))


def _rl(solver):
    try:
        st = solver.statistics()
        for k in st.keys():
            if k == "rlimit count":
                return st.get_key_value(k)
    except Exception:
        pass
    return 0


def _rl_note(kind, units, r, dt):
    with open("/tmp/pyvc_rl_stats.txt", "a") as f:
        f.write(f"{kind}\t{units}\t{r}\t{dt:.3f}\n")


MAX_POOL = 400
HARD_HITS = 0
# number of queries one task may still spend that do *not* come back unsat (a proof that succeeds
# does so in milliseconds; a mutated function would otherwise burn every time-out of every open
# obligation in turn).  Reset by verify_contract.
SLOW = [2]
FALLBACK_LEFT = [2]         # the quantifier-free fallback (counter-model search) is tried for the first two open obligations of a task only
INC_OPEN = [0]                   # obligations the incremental solver left open in this task (reset by verify_contract)
INC_OPEN_MAX = 30                # beyond this many, further obligations of the task get only the small feasibility budget in-line
RL_OB_INC = 4_000_000            # incremental obligation check; what it leaves open goes to the standalone query
RL_OB_EMATCH = 400_000_000       # standalone E-matching query (largest passing one: 125M)
WALL_SAFETY_MS = 300_000


def instantiate(facts, qfacts, bounds, extra, rounds=3, max_pool=MAX_POOL, deadline=None):
    """Return the ground formula list: facts + extra + instances of every qfact at every
    index term of the pool (select indices of the ground part, bounds, +-1), `rounds` times."""
    ground = list(facts) + list(extra)
    seen = set()
    pool = {}
    for b in bounds:
        b = z3.simplify(b)
        pool.setdefault(b.get_id(), b)
    done = set()
    scanned = 0
    nrounds = 0
    for rd in range(rounds):
        _index_terms(ground[scanned:], seen, pool)
        scanned = len(ground)
        # close under +-1 (guards of the form k < i / k <= i need the neighbours)
        if rd == 0:
            for t in list(pool.values()):
                for d in (1, -1):
                    u = z3.simplify(t + d)
                    pool.setdefault(u.get_id(), u)
        if len(pool) > max_pool:
            # keep it tractable: prefer small terms
            items = sorted(pool.items(), key=lambda kv: len(kv[1].sexpr()))[:max_pool]
            pool = dict(items)
        new = []
        for qi, q in enumerate(qfacts):
            if deadline is not None and time.time() > deadline:
                break           # fewer instances: an unsat answer stays sound, a model is re-validated
            for tid, t in list(pool.items()):
                key = (qi, tid)
                if key in done:
                    continue
                done.add(key)
                f = q.fn(t)
                if f is True:
                    continue
                f = z3.simplify(f)
                if z3.is_true(f):
                    continue
                new.append(f)
        nrounds += 1
        if not new:
            break
        ground.extend(new)
    return ground, nrounds


def _probe_in_child(s, timeout_ms):
    """z3 does not honour its time or resource limits in every phase (observed: minutes inside
    check() with a 10 s limit on large instantiated formulas).  The query is therefore first run
    in a forked child that is killed at the deadline; only a query the child finishes in time
    is repeated in this process (to obtain the model)."""
    import select
    import signal
    r, w = os.pipe()
    pid = os.fork()
    if pid == 0:
        try:
            os.close(r)
            res = s.check()
            os.write(w, str(res).encode())
        finally:
            os._exit(0)
    os.close(w)
    deadline = timeout_ms / 1000.0 + 3.0
    ready, _, _ = select.select([r], [], [], deadline)
    out = os.read(r, 64).decode() if ready else ""
    os.close(r)
    if not ready:
        try:
            os.kill(pid, signal.SIGKILL)
        except OSError:
            pass
    os.waitpid(pid, 0)
    return out or None


def check_ground(ground, timeout_ms=10000):
    s = z3.Solver()
    # the verdict is bounded by a *resource* limit (load independent); the wall-clock limit is three
    # times what that limit takes on an idle machine and only a safety net
    wall_ms = 3 * int(timeout_ms)
    s.set("timeout", wall_ms)
    s.set("rlimit", int(timeout_ms) * 9000)      # z3's wall-clock timeout is not honoured in every phase
    s.add(*ground)
    t = time.time()
    if len(ground) > 400:
        probe = _probe_in_child(s, wall_ms)
        if probe is None:
            return Result("unknown", None, len(ground), time.time() - t, reason="hard deadline (child killed)")
        if probe == "unknown":
            return Result("unknown", None, len(ground), time.time() - t, reason="unknown in probe")
    r = s.check()
    dt = time.time() - t
    if r == z3.unsat:
        return Result("unsat", None, len(ground), dt)
    if r == z3.sat:
        return Result("sat", s.model(), len(ground), dt)
    return Result("unknown", None, len(ground), dt, reason=s.reason_unknown())


def to_smt2(ground):
    s = z3.Solver()
    s.add(*ground)
    return "(set-logic ALL)\n" + s.to_smt2()


def check_cvc5(ground, timeout_s=60):
    """Independent back end: the same quantifier-free query through the cvc5 CLI."""
    txt = to_smt2(ground)
    with tempfile.NamedTemporaryFile("w", suffix=".smt2", delete=False) as f:
        f.write(txt)
        path = f.name
    t = time.time()
    try:
        out = subprocess.run(
            ["/usr/bin/cvc5", f"--tlimit={int(timeout_s*1000)}", path],
            capture_output=True, text=True, timeout=timeout_s + 5,
        ).stdout.strip().splitlines()
        r = out[0] if out else "unknown"
    except subprocess.TimeoutExpired:
        r = "unknown"
    finally:
        os.unlink(path)
    if r not in ("sat", "unsat"):
        r = "unknown"
    return Result(r, None, len(ground), time.time() - t, backend="cvc5")


def validate_model(model, facts, qfacts, extra, lo=-2, hi=40):
    """Evaluate the un-instantiated VC on the model: every ground fact and every instance of
    every quantified fact for k in [lo, hi] must be true.  Returns (ok, first_failure)."""
    def ev(f):
        v = model.eval(f, model_completion=True)
        return z3.is_true(v)
    for f in list(facts) + list(extra):
        if not ev(f):
            return False, f"ground fact false in model: {f}"[:300]
    for q in qfacts:
        for k in range(lo, hi + 1):
            f = q.fn(iv(k))
            if f is True:
                continue
            if not ev(f):
                return False, f"quantified fact {q.name} false at k={k}"
    return True, ""


def check_ematch(facts, qfacts, bounds, extra, timeout_ms=10000):
    """z3 with the quantified facts as pattern-annotated quantifiers (E-matching only, no MBQI):
    'unsat' is a proof; anything else is inconclusive."""
    s = z3.Solver()
    s.set("auto_config", False)
    s.set("smt.mbqi", False)
    s.set("smt.ematching", True)
    s.set("timeout", WALL_SAFETY_MS)
    s.set("rlimit", RL_OB_EMATCH if timeout_ms <= 10000 else 4 * RL_OB_EMATCH)
    s.add(*facts)
    for q in qfacts:
        s.add(q.quant())
    seen = set()
    for b in bounds:
        if b.get_id() not in seen:
            seen.add(b.get_id())
            s.add(IDX(b))
    s.add(*extra)
    t = time.time()
    r = s.check()
    dt = time.time() - t
    if _RLSTAT:
        _rl_note("ematch", _rl(s), r, dt)
    n = len(facts) + len(qfacts) + len(seen) + len(extra)
    if r == z3.unsat:
        return Result("unsat", None, n, dt, backend="z3-ematch")
    if r == z3.sat and not qfacts:
        return Result("sat", s.model(), n, dt, backend="z3-ematch")
    return Result("unknown", None, n, dt, backend="z3-ematch", reason=str(r))


def prove(snapshot, goal, timeout_ms=10000, rounds=3, use_cvc5=False, validate=True):
    """Try to prove `goal` under the snapshot (facts, qfacts, bounds).
    1. z3 E-matching on the pattern-annotated quantifiers: unsat -> proved.
    2. otherwise our own instantiation (quantifier-free query): unsat -> proved,
       sat -> counter-model, validated against the un-instantiated facts."""
    facts, qfacts, bounds = snapshot
    neg = z3.Not(goal)
    t_start = time.time()
    if SLOW[0] <= 0 and FALLBACK_LEFT[0] <= 0:
        return Result("unknown", None, len(facts) + len(qfacts), 0.0, backend="z3-ematch",
                      reason="slow-query budget of the task used up")
    if SLOW[0] > 0:
        r = check_ematch(facts, qfacts, bounds, [neg], timeout_ms)
        if r.status in ("unsat", "sat"):
            return r
        SLOW[0] -= 1          # an inconclusive standalone query: the task may spend only a few of them
    else:
        r = Result("unknown", None, len(facts) + len(qfacts), 0.0, backend="z3-ematch",
                   reason="standalone-query budget of the task used up")
    t_em = r.time_s
    last = None
    global HARD_HITS
    if FALLBACK_LEFT[0] <= 0:
        r.reason = "fallback (own instantiation) budget of this task used up"
        return r
    FALLBACK_LEFT[0] -= 1
    if HARD_HITS >= 2:
        # this process already lost two queries to the hard deadline: the remaining open
        # obligations of the task are reported undecided without the slow fallback
        r.reason = "fallback skipped after repeated hard deadlines"
        return r
    deadline = time.time() + max(8.0, 1.0 * timeout_ms / 1000.0)
    for nr in ([rounds] if rounds <= 2 else [2, rounds]):
        if last is not None and time.time() > deadline:
            break
        ground, used = instantiate(facts, qfacts, bounds, [neg], rounds=nr, deadline=deadline)
        r = check_ground(ground, timeout_ms)
        r.rounds = used
        r.backend = "z3-qf"
        last = r
        if r.status == "unsat":
            break
        if r.status == "unknown" and str(r.reason).startswith("hard deadline"):
            HARD_HITS += 1
            break
    r = last
    r.time_s += t_em
    if os.environ.get("PYVC_DEBUG_PROVE"):
        sys.stderr.write(f"[prove] fallback status={r.status} reason={r.reason} rounds={getattr(r, 'rounds', None)} "
                         f"ground={r.n_ground} t={r.time_s:.1f}s ematch_t={t_em:.1f}s\n")
    if r.status == "unknown" and use_cvc5:
        r2 = check_cvc5(ground, timeout_s=max(10, timeout_ms // 1000))
        if r2.status == "unsat":
            r2.rounds = r.rounds
            return r2
    if r.status == "sat" and validate:
        ok, why = validate_model(r.model, facts, qfacts, [neg])
        r.validated = ok
        r.reason = why
    return r


def feasible_strong(ctx, global_facts=(), timeout_ms=1500, rounds=2):
    """Pruning test with the quantified facts (sound: unsat => infeasible)."""
    r = check_ematch(list(ctx.facts) + list(global_facts), ctx.qfacts, ctx.bounds, [], timeout_ms)
    return r.status != "unsat"


def feasible(facts, extra=(), timeout_ms=300):
    """Cheap pruning test on ground facts only (sound: unsat of a subset => infeasible)."""
    s = z3.Solver()
    s.set("timeout", timeout_ms)
    s.add(*facts)
    s.add(*extra)
    return s.check() != z3.unsat
