"""Verdict, replay files, known findings and the evidence file of one check run."""
from __future__ import annotations

import json
import os
import re
import time

ROOT = os.path.dirname(os.path.dirname(os.path.abspath(__file__)))

TRUSTED_BASE = [
    "pyvc itself: symbolic semantics of the Python subset, library contracts of str/int operations (pyvc/values.py, pyvc/lib.py), cut/segment driver",
    "z3 5.1.0 (E-matching on pattern-annotated quantified facts; quantifier-free fallback with own instantiation)",
    "CPython 3.12.1 semantics of the executed constructs; library contracts are conformance-tested, not proved",
    "external code behind opaque functional symbols: re, unicodedata, idna, ipaddress, multidict, propcache, functools.lru_cache",
    "executable specifications in /verif/contracts/spec_*.py are hand transcriptions of RFC 3986 and of the property statements",
    "termination is not proved (partial correctness)",
]


def load_known():
    try:
        return json.load(open(os.path.join(ROOT, "known_findings.json")))
    except (OSError, ValueError):
        return {"fixed": [], "findings": []}


def safe(name):
    return re.sub(r"[^A-Za-z0-9_.-]+", "_", name)[:120]


_CACHE = {}


def okey(o):
    """obligation identity that survives path renumbering: function, kind, name without [..] suffix"""
    name = re.sub(r"\[.*$", "", o["name"])
    name = re.sub(r"\(line \d+\)", "", name)
    return f"{o.get('function')}|{o['kind']}|{name}"


def load_baseline(prop):
    try:
        return set(json.load(open(os.path.join(ROOT, "baseline", f"{prop}.json")))["discharged"])
    except (OSError, ValueError, KeyError):
        return set()


def finish(prop, tier, seed, contracts, results, extra, t0, write_baseline=False):
    from pyvc import replay
    by_qual = {c.qual: c for c in contracts}
    obligations = []
    unsupported = []
    errors = []
    functions = {}
    solver_time = 0.0
    for r in results:
        if r.get("error"):
            errors.append(f"{r['task']}: {r['error']}")
        for u in r.get("unsupported", []):
            unsupported.append(f"{r['function']}: {u}")
        f = functions.setdefault(r["function"], {"paths": 0, "pairs": 0, "obligations": 0, "inlined": set(),
                                                 "callee_contracts": set(), "wall_s": 0.0, "merges": 0})
        f["paths"] += r.get("paths", 0)
        f["pairs"] += r.get("pairs", 0)
        f["merges"] += r.get("merges", 0)
        f["wall_s"] += r.get("wall_s", 0.0)
        f["inlined"].update(r.get("inlined", []))
        f["callee_contracts"].update(r.get("callee_contracts", []))
        solver_time += r.get("solver_time_s", 0.0)
        for o in r["obligations"]:
            o["function"] = r["function"]
            obligations.append(o)
            f["obligations"] += 1
    for o in extra:
        obligations.append(o)
    baseline = load_baseline(prop)
    known = load_known()
    my_findings = [k for k in known.get("findings", []) if k.get("property") == prop]

    # ---- verdicts
    violations = []
    undecided = []
    os.makedirs(os.path.join(ROOT, "replays"), exist_ok=True)
    for o in obligations:
        if o["status"] == "unsat" or o["status"] == "ok":
            continue
        if o["kind"] == "reach":
            # a construct outside the model on a path not proved infeasible: undecided, never a violation
            undecided.append(o)
            continue
        if o["status"] == "sat":
            c = by_qual.get(o.get("function"))
            rep = {"property": prop, "obligation": o["name"], "kind": o["kind"], "function": o.get("function"),
                   "where": o.get("where"), "backend": o.get("backend"), "model_validated": o.get("validated"),
                   "solver_output": o.get("why", ""), "model_inputs": o.get("inputs"), "info": o.get("info")}
            found = None
            if c is not None and o.get("inputs") is not None and (c.spec is not None or getattr(c, "fn", None) is not None or getattr(c, "native_spec", None) is not None):
                try:
                    j = replay.judge(c, o["inputs"])
                    rep["model_replay"] = j
                    if j["in_pre"] and not j["agrees"]:
                        found = (o["inputs"], j)
                    else:
                        cand, j2, tried = replay.search(c, o["inputs"], seed=seed)
                        rep["search_tried"] = tried
                        if cand is not None:
                            found = (cand, j2)
                except Exception as e:  # replay machinery failure is not a verdict
                    rep["replay_error"] = f"{type(e).__name__}: {e}"
            elif o.get("replay") is not None:
                found = (o["replay"].get("inputs"), o["replay"])
            if found is None and str(o.get("function", "")).startswith("yarl._quoting_c_pyx"):
                try:
                    if "c_search" not in _CACHE:
                        _CACHE["c_search"] = replay.search_c_quoter()
                    cand, j2 = _CACHE["c_search"]
                    if cand is not None:
                        found = (cand, j2)
                        rep["replay_kind"] = "compiled quoter rebuilt from the current .pyx, compared with the token-level specification"
                except Exception as e:
                    rep["replay_error"] = f"{type(e).__name__}: {e}"
            if o.get("validated") is False and found is None and okey(o) not in baseline:
                # counter-model of the instantiated VC that does not satisfy the un-instantiated
                # facts, nothing reproduces natively, and the obligation is not one that was
                # discharged on the pinned tree: not a verdict
                undecided.append(o)
                continue
            if o.get("validated") is False and found is None:
                rep["note"] = ("the obligation is discharged on the pinned tree (baseline/%s.json) and is now refuted "
                               "by the solver on the instantiated verification condition" % prop)
            if found is not None:
                rep["failing_input"] = found[0]
                rep["observed_vs_expected"] = found[1]
                rep["replay_call"] = {"function": o.get("function"), "args": found[0]}
                if isinstance(found[1], dict) and found[1].get("bounded_check"):
                    rep["bounded_check"] = found[1]["bounded_check"]
                elif o.get("kind") in ("finite", "static", "conformance", "bounded"):
                    rep["finite_obligation"] = True
            path = os.path.join("replays", f"{prop}-{safe(o.get('function', 'finite'))}-{safe(o['name'])}.json")
            json.dump(rep, open(os.path.join(ROOT, path), "w"), indent=1, ensure_ascii=True, default=repr)
            violations.append((o, path, found is not None))
        else:
            undecided.append(o)

    # ---- known findings: each listed witness is re-run; it must still fail to be reported
    kf_lines = []
    for k in my_findings:
        c = by_qual.get(k.get("function"))
        still = None
        if c is not None and c.spec is not None and "witness" in k:
            try:
                j = replay.judge(c, k["witness"])
                still = not j["agrees"]
            except Exception:
                still = None
        elif "bounded_class" in k:
            still = any(o.get("info", {}).get("known_finding_hits", {}).get(k["bounded_class"], 0) > 0 for o in extra)
        elif "witness_cmd" in k:
            still = _run_witness_cmd(k["witness_cmd"])
        if still:
            kf_lines.append(f"KNOWN-FINDING: property={prop} {k['what']}")

    # bounded stand-ins are reported on their own and never counted as proved obligations
    proved_kind = [o for o in obligations if not o.get("bounded")]
    standins = [o for o in obligations if o.get("bounded")]
    n = len(proved_kind)
    discharged = sum(1 for o in proved_kind if o["status"] in ("unsat", "ok"))
    standins_held = sum(1 for o in standins if o["status"] in ("unsat", "ok"))
    by_backend = {}
    for o in proved_kind:
        if o["status"] in ("unsat", "ok"):
            by_backend[o.get("backend", "?")] = by_backend.get(o.get("backend", "?"), 0) + 1
    samples = []
    seen_kinds = set()
    for o in obligations:
        key = (o.get("function"), o["kind"])
        if key in seen_kinds or len(samples) >= 12:
            continue
        seen_kinds.add(key)
        samples.append({"obligation": o["name"], "kind": o["kind"], "function": o.get("function"),
                        "where": o.get("where"), "result": o["status"], "backend": o.get("backend"),
                        "solver_time_s": o.get("time_s"), "size": o.get("ground")})
    enum = [o for o in extra if o.get("backend") == "enumeration"]
    # a property whose top-level statement is decided only by a bounded stand-in reports at the
    # exploration level; stand-ins that merely accompany proved contracts are listed, not counted
    level = "exploration" if any(o.get("primary_for") == prop for o in enum) else "proof"
    evidence = {
        "property_id": prop, "tier": tier, "seed": seed, "level": level,
        "coverage": {
            "obligations": n, "discharged": discharged,
            "checker_cmd": f"bin/check {prop} --tier {tier}",
            "trusted_base": TRUSTED_BASE,
            "functions_under_contract": {q: {"paths": f["paths"], "code_spec_pairs": f["pairs"],
                                             "obligations": f["obligations"], "merges": f["merges"],
                                             "callees_by_contract": sorted(f["callee_contracts"]),
                                             "callees_inlined": sorted(f["inlined"]),
                                             "wall_s": round(f["wall_s"], 2)} for q, f in sorted(functions.items())},
            "by_backend": by_backend,
            "max_open_after_incremental_check_per_task": max([r.get("inc_open", 0) for r in results] + [0]),
            "solver_time_s": round(solver_time, 2),
            "samples": samples,
            "bounded_standins": [o for o in extra if o.get("bounded")],
            "bounded_standins_held": standins_held,
            "unsupported": unsupported,
            "undecided": [o["name"] for o in undecided][:50],
            "known_findings": [k["what"] for k in my_findings],
            "explanation": "obligations = refinement of the executable specification on every path of the real "
                           "function (post/raises), implicit safety obligations, loop invariants, cut relations, "
                           "callee preconditions, plus finite/DFA lemmas; each discharged by the named back end",
        },
        "assumptions": TRUSTED_BASE + sorted({a for o in extra for a in o.get("assumptions", [])}
                                             | {a for r in results for a in r.get("assumed_contracts", [])}),
        "wall_s": round(time.time() - t0, 2),
        "violations": len(violations),
    }
    if level == "exploration":
        cov = evidence["coverage"]
        cov["evaluations"] = sum(o.get("evaluations", 0) for o in enum)
        cov["distinct_nontrivial"] = sum(o.get("distinct_nontrivial", 0) for o in enum)
        cov["rule"] = " | ".join(o.get("rule", "") for o in enum)
        cov["samples"] = [x for o in enum for x in o.get("samples", [])] or samples
        cov["proved_part"] = ("the contract obligations listed under functions_under_contract are discharged for all inputs; "
                              "the property's top-level statement is decided only by the bounded stand-in(s) in "
                              "bounded_standins, over the stated finite domain -- bounded, not proved")
    os.makedirs(os.path.join(ROOT, "evidence"), exist_ok=True)
    json.dump(evidence, open(os.path.join(ROOT, "evidence", f"{prop}.json"), "w"), indent=1, ensure_ascii=True, default=repr)

    if write_baseline:
        os.makedirs(os.path.join(ROOT, "baseline"), exist_ok=True)
        keys = sorted({okey(o) for o in obligations if o["status"] in ("unsat", "ok")})
        json.dump({"property": prop, "discharged": keys}, open(os.path.join(ROOT, "baseline", f"{prop}.json"), "w"), indent=0)
    for line in kf_lines:
        print(line)
    print(f"{prop}: {discharged}/{n} obligations discharged over {len(functions)} functions "
          f"({', '.join(f'{k}:{v}' for k, v in sorted(by_backend.items()))}); "
          f"{standins_held}/{len(standins)} bounded stand-ins held; "
          f"{len(violations)} refuted, {len(undecided)} undecided, {len(unsupported)} unsupported; "
          f"{evidence['wall_s']}s")
    if errors:
        for e in errors:
            print("CHECKER-ERROR", e)
        return 3
    if violations:
        for o, path, has_input in violations:
            tail = "" if has_input else " no-failing-input-found"
            print(f"VIOLATION property={prop} replay={path}{tail}")
        return 1
    if n + len(standins) == 0:
        print(f"CHECKER-ERROR property={prop}: zero obligations generated")
        return 3
    if undecided or unsupported:
        for o in undecided[:20]:
            print(f"UNDECIDED property={prop} obligation={o['name']} function={o.get('function')} status={o['status']}")
        for u in unsupported[:20]:
            print(f"UNDECIDED property={prop} unsupported: {u}")
        return 2
    return 0


def _run_witness_cmd(cmd):
    import subprocess
    try:
        r = subprocess.run(cmd, shell=True, capture_output=True, text=True, timeout=900, cwd=ROOT)
        return r.returncode != 0
    except Exception:
        return None
