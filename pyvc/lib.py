"""Library contracts wired into the executor: str methods, builtins, and the spec primitives
that executable specifications (contracts/spec_*.py) are written with.

Opaque library functions (re.match, unicodedata.normalize, idna, ipaddress ...) are modelled
as *functional* unknowns: the same call on the same argument terms yields the same result
term, so code and specification meet syntactically; nothing else is assumed about them.
"""
from __future__ import annotations

import ast
import builtins
import re
import sys

import z3

from . import values as V
from .smt import fresh_bool, fresh_int, iv, is_conc_int


def _raised():
    from .engine import Raised
    return Raised

from .values import (NONE, VBool, VConst, VDict, VExc, VInt, VList, VNone, VObj, VSeg, VSList, VStr, VStream, VSymCache, VTuple,
                     Unsupported, lit)


def _memo(ctx):
    m = getattr(ctx, "memo", None)
    if m is None:
        m = ctx.memo = {}
    return m


def _skey(s):
    if s.conc is not None:
        return ("c", s.conc)
    return (s.a.get_id(), z3.simplify(s.lo).get_id(), z3.simplify(s.hi).get_id())


def opaque_bool(ctx, name, *strs):
    key = ("ob", name) + tuple(_skey(s) if isinstance(s, VStr) else s for s in strs)
    m = _memo(ctx)
    if key not in m:
        m[key] = fresh_bool(name)
    return m[key]


def opaque_str(ctx, name, *strs, kind="str"):
    key = ("os", name) + tuple(_skey(s) if isinstance(s, VStr) else s for s in strs)
    m = _memo(ctx)
    if key not in m:
        m[key] = V.fresh_str(ctx, name, kind)
    return m[key]


# ------------------------------------------------------------------ str methods

def call_method(ex, st, recv, name, args, kwargs, node):
    ctx = st.ctx
    if isinstance(recv, VStr):
        fn = STR_METHODS.get(name)
        if fn is None:
            raise Unsupported(f"str.{name} at {ex.where(node)}")
        yield from fn(ex, st, recv, args, kwargs, node)
        return
    if isinstance(recv, VList):
        yield from list_method(ex, st, recv, name, args, kwargs, node)
        return
    if type(recv).__name__ == "VPList":
        from . import plist
        if name == "append" and len(args) == 1 and isinstance(args[0], VStr):
            ex.check_frame(st, recv, node)
            plist.l_append(recv, args[0])
            yield NONE, st
            return
        if name == "reverse" and not args:
            ex.check_frame(st, recv, node)
            recv.rev = not recv.rev
            yield NONE, st
            return
        raise Unsupported(f"split-list.{name}")
    if isinstance(recv, VObj) and recv.cls == "Match" and name in ("start", "group") and not args:
        yield recv.fields["_" + name], st
        return
    if isinstance(recv, VDict):
        if name == "get":
            k = args[0]
            if isinstance(k, VStr) and k.conc is not None:
                yield recv.d.get(k.conc, args[1] if len(args) > 1 else NONE), st
                return
        if name == "items":
            yield VList([VTuple([lit(k), v]) for k, v in recv.d.items()]), st
            return
        if name == "copy":
            yield VDict(dict(recv.d), fresh=True), st
            return
        if name == "pop" and isinstance(args[0], VStr) and args[0].conc is not None:
            ex.check_frame(st, recv, node)
            yield recv.d.pop(args[0].conc, args[1] if len(args) > 1 else NONE), st
            return
        raise Unsupported(f"dict.{name}")
    if isinstance(recv, VSList):
        yield from seglist_method(ex, st, recv, name, args, kwargs, node)
        return
    if isinstance(recv, VSymCache):
        yield from symcache_method(ex, st, recv, name, args, kwargs, node)
        return
    if isinstance(recv, VObj) and recv.cls == "Utf8Decoder":
        yield from decoder_method(ex, st, recv, name, args, kwargs, node)
        return
    if isinstance(recv, VStream):
        if name in ("append", "extend"):
            a = args[0]
            if name == "append" and getattr(recv.spec, "str_stream", False) and isinstance(a, VStr):
                items = ex.iter_items(st, a)
                if items is None:
                    # the length may be fixed by the path condition (a slice between named indices)
                    n = a.len()
                    for k in range(0, 13):
                        if ex.sol.check(n != k, timeout_ms=500) == z3.unsat:
                            items = [V.char_at(st.ctx, a, V.iv(i)) for i in range(k)]
                            break
                if items is None:
                    raise Unsupported("a string of symbolic length appended to the output list")
            elif name == "append":
                items = [a]
            elif isinstance(a, (VList, VTuple)):
                items = list(a.items)
            elif isinstance(a, VStr):
                items = ex.iter_items(st, a)
                if items is None:
                    raise Unsupported("stream.extend of a string of symbolic length")
            else:
                raise Unsupported(f"stream.{name}({a!r})")
            for s2 in recv.spec.emit(ex, st, recv, items, node):
                yield NONE, s2
            return
        if name == "decode":
            if recv.spec.stream_result is None:
                raise Unsupported("stream read without a result contract")
            yield recv.spec.stream_result(ex, st, recv), st
            return
        raise Unsupported(f"stream.{name}")
    if isinstance(recv, VTuple):
        raise Unsupported(f"tuple.{name}")
    raise Unsupported(f"method {name} on {recv!r}")


def _seg_of(x):
    if isinstance(x, VSeg):
        return x.t
    if isinstance(x, VStr) and x.conc is not None:
        return iv(V.seg_id(x.conc))
    raise Unsupported(f"list element {x!r}")


def seglist_method(ex, st, recv, name, args, kwargs, node):
    """list operations on a list of path segments of symbolic length (library contract of
    list.append / list.pop / list.extend as functional updates of the element view)"""
    if name in ("append", "pop", "extend", "reverse", "clear"):
        ex.check_frame(st, recv, node)
    v = recv.view
    if name == "append":
        one = V.fresh_str(st.ctx, "el", "segs")
        st.ctx.add(one.len() == 1, one.a[0] == _seg_of(args[0]))
        recv.view = V.concat(st.ctx, [v, VStr(one.a, 0, 1, kind="segs")], kind="segs")
        yield NONE, st
        return
    if name == "pop" and not args:
        n = v.len()
        for kind, s2 in ex.raise_or_oblige(st, IndexError, n > 0, "pop-from-empty-list", node):
            if kind == "ok":
                r = s2.tr(recv)
                last = VSeg(r.view.a[V.name_term(s2.ctx, r.view.hi - 1, "li")])
                r.view = V.intern_view(s2.ctx, VStr(r.view.a, r.view.lo, V.name_term(s2.ctx, r.view.hi - 1, "li"), kind="segs"))
                yield last, s2
            else:
                yield _raised()(VExc(IndexError)), s2
        return
    raise Unsupported(f"segment-list.{name}")


def symcache_lookup(ex, st, cache, key, node):
    """entries of a memo that was filled earlier: absent (yields None) or the lazy value"""
    from contracts import spec_url
    from .verify import call_spec, to_spec_arg
    if key in cache.removed:
        yield None, st
        return
    fn = spec_url.MEMO_SPECS.get(key)
    if fn is None:
        raise Unsupported(f"memo key {key!r} without a lazy definition")
    present = opaque_bool(st.ctx, f"memo-has[{key}]", id(cache))
    for b, s2 in ex.branch(st, present):
        if not b:
            yield None, s2
            continue
        for v, s3 in call_spec(ex, s2, ex.wrap(fn), [to_spec_arg(cache.owner)], {}, node):
            yield v, s3


def symcache_method(ex, st, cache, name, args, kwargs, node):
    if name == "get":
        key = args[0].conc
        if key in cache.extra:
            yield cache.extra[key], st
            return
        for v, s2 in symcache_lookup(ex, st, cache, key, node):
            yield (v if v is not None else (args[1] if len(args) > 1 else NONE)), s2
        return
    if name == "copy":
        yield VSymCache(cache.owner, cache.removed, cache.extra), st
        return
    if name == "pop":
        key = args[0].conc
        cache.removed.add(key)
        cache.extra.pop(key, None)
        yield NONE, st         # the popped value is not used by the code base
        return
    if name == "clear":
        raise Unsupported("clearing a memo")
    raise Unsupported(f"memo.{name}")


def bytes_list_to_str(ex, st, recv, kind="str"):
    r = V.fresh_str(st.ctx, "dec", kind)
    st.ctx.add(r.len() == len(recv.items))
    for i, it in enumerate(recv.items):
        st.ctx.add(r.a[i] == it.t)
    return VStr(r.a, 0, len(recv.items), kind=kind)


def regex_classes(ex, st, pattern, subject, full):
    """re.Pattern.match / fullmatch for a pattern that is a sequence of character classes
    (e.g. [A-Z0-9][A-Z0-9]); the result is used only for its truthiness"""
    import re as _re
    pat = pattern.pattern
    is_bytes = isinstance(pat, bytes)
    if is_bytes:
        pat = pat.decode("latin1")
    classes = _re.findall(r"\[([^\]]+)\]", pat)
    if "".join(f"[{c}]" for c in classes) != pat:
        raise Unsupported(f"regex {pat!r} outside the character-class-sequence subset")
    sets = []
    for c in classes:
        codes = set()
        i = 0
        while i < len(c):
            if i + 2 < len(c) and c[i + 1] == "-":
                codes.update(range(ord(c[i]), ord(c[i + 2]) + 1))
                i += 3
            else:
                codes.add(ord(c[i]))
                i += 1
        sets.append(sorted(codes))
    if isinstance(subject, VList):
        items = [x.t for x in subject.items]
        n_ok = z3.BoolVal(len(items) == len(sets) if full else len(items) >= len(sets))
        if len(items) < len(sets):
            return VBool(False)
        return VBool(z3.And([n_ok] + [V.in_set(items[i], sets[i]) for i in range(len(sets))]))
    if isinstance(subject, VStr):
        k = len(sets)
        n = subject.len()
        lenok = (n == k) if full else (n >= k)
        return VBool(z3.And([lenok] + [V.in_set(subject.a[subject.lo + i], sets[i]) for i in range(k)]))
    raise Unsupported("regex subject")


def list_method(ex, st, recv, name, args, kwargs, node):
    if name == "decode" and getattr(recv, "bytes", False):
        enc = args[0].conc if args else "utf-8"
        if enc != "ascii":
            raise Unsupported("bytearray.decode(non-ascii)")
        ok = z3.And([x.t < 128 for x in recv.items] + [z3.BoolVal(True)])
        for kind, s2 in ex.raise_or_oblige(st, UnicodeDecodeError, ok, "ascii-decodable", node):
            if kind == "ok":
                yield bytes_list_to_str(ex, s2, recv), s2
            else:
                yield _raised()(VExc(UnicodeDecodeError)), s2
        return
    if name in ("append", "extend", "reverse", "pop", "clear", "insert"):
        ex.check_frame(st, recv, node)
    if name == "append":
        recv.items.append(args[0])
        yield NONE, st
    elif name == "extend":
        recv.items.extend(args[0].items)
        yield NONE, st
    elif name == "reverse":
        recv.items.reverse()
        yield NONE, st
    elif name == "clear":
        recv.items.clear()
        yield NONE, st
    elif name == "pop":
        if args:
            raise Unsupported("list.pop(i)")
        if recv.items:
            yield recv.items.pop(), st
        else:
            for kind, s2 in ex.raise_or_oblige(st, IndexError, z3.BoolVal(False), "pop-from-empty-list", node):
                if kind == "raise":
                    yield _raised()(VExc(IndexError)), s2
    else:
        raise Unsupported(f"list.{name}")


def _one_char_arg(a):
    if isinstance(a, VStr) and (a.conc is None or len(a.conc) == 1):
        return a
    raise Unsupported(f"needle {a!r}")


def m_find(ex, st, s, args, kwargs, node, reverse=False):
    needle = _one_char_arg(args[0])
    start = args[1].t if len(args) > 1 and not isinstance(args[1], VNone) else None
    end = args[2].t if len(args) > 2 and not isinstance(args[2], VNone) else None
    yield VInt(V.find(st.ctx, s, needle, start, end, reverse=reverse)), st


def m_rfind(ex, st, s, args, kwargs, node):
    yield from m_find(ex, st, s, args, kwargs, node, reverse=True)


def m_partition(ex, st, s, args, kwargs, node, reverse=False):
    needle = _one_char_arg(args[0])
    i = V.find(st.ctx, s, needle, reverse=reverse)
    n = s.len()
    found = i >= 0
    if s.conc is not None and needle.conc is not None:
        parts = s.conc.rpartition(needle.conc) if reverse else s.conc.partition(needle.conc)
        yield VTuple([lit(p) for p in parts]), st
        return
    nt = V.name_term
    if reverse:
        cut = nt(st.ctx, z3.If(found, s.lo + i, s.lo), "pc")
        after = nt(st.ctx, z3.If(found, s.lo + i + 1, s.lo), "pa")
    else:
        cut = nt(st.ctx, z3.If(found, s.lo + i, s.hi), "pc")
        after = nt(st.ctx, z3.If(found, s.lo + i + 1, s.hi), "pa")
    head = V.intern_view(st.ctx, VStr(s.a, s.lo, cut))
    sep = VStr(s.a, cut, after)
    tail = V.intern_view(st.ctx, VStr(s.a, after, s.hi))
    yield VTuple([head, sep, tail]), st


def m_rpartition(ex, st, s, args, kwargs, node):
    yield from m_partition(ex, st, s, args, kwargs, node, reverse=True)


def m_lstrip(ex, st, s, args, kwargs, node):
    if not args or args[0].conc is None:
        raise Unsupported("lstrip() without constant character set")
    if s.conc is not None:
        yield lit(s.conc.lstrip(args[0].conc)), st
        return
    r = V.first_of(st.ctx, s, V.codes_of(args[0]), negate=True)
    yield V.intern_view(st.ctx, VStr(s.a, V.name_term(st.ctx, s.lo + r, 'ls'), s.hi)), st


def m_rstrip(ex, st, s, args, kwargs, node):
    if not args or args[0].conc is None:
        raise Unsupported("rstrip() without constant character set")
    if s.conc is not None:
        yield lit(s.conc.rstrip(args[0].conc)), st
        return
    codes = V.codes_of(args[0])
    ctx = st.ctx
    r = fresh_int("rs")
    n = s.len()
    A, lo = s.a, s.lo
    ctx.add(0 <= r, r <= n, z3.Or(r == 0, z3.Not(V.in_set(A[lo + r - 1], codes))))
    ctx.addq("rstrip", A, lambda k: z3.Implies(z3.And(lo + r <= k, k < lo + n), V.in_set(A[k], codes)))
    ctx.bound(lo + r, lo + r - 1, lo + n - 1)
    yield VStr(A, lo, V.name_term(st.ctx, lo + r, 'rs')), st


def m_replace(ex, st, s, args, kwargs, node):
    old, new = args[0], args[1]
    if old.conc is not None and len(old.conc) == 1 and new.conc == "":
        yield V.remove_char(st.ctx, s, ord(old.conc)), st
        return
    if s.conc is not None and old.conc is not None and new.conc is not None:
        yield lit(s.conc.replace(old.conc, new.conc)), st
        return
    # general replace: functional opaque (used by human_quote; contract facts added by its model)
    if old.conc is not None and new.conc is not None:
        yield opaque_str(st.ctx, f"replace[{old.conc!r},{new.conc!r}]", s), st
        return
    raise Unsupported("str.replace with symbolic pattern")


def m_lower(ex, st, s, args, kwargs, node):
    yield V.lower(st.ctx, s), st


def m_isascii(ex, st, s, args, kwargs, node):
    yield VBool(V.is_ascii(st.ctx, s)), st


def m_isdigit(ex, st, s, args, kwargs, node):
    if s.conc is not None:
        yield VBool(s.conc.isdigit()), st
        return
    if z3.is_true(z3.simplify(s.hi - s.lo == 1)):
        yield VBool(V.is_digit_code(s.a[s.lo])), st
        return
    p = V.all_in(st.ctx, s, V.is_digit_code, "isdigit")
    yield VBool(z3.And(s.len() > 0, p)), st


def m_isalpha(ex, st, s, args, kwargs, node):
    if s.conc is not None:
        yield VBool(s.conc.isalpha()), st
        return
    ualpha = z3.Function("UALPHA", z3.IntSort(), z3.BoolSort())

    def alpha(t):
        return z3.If(t < 128, z3.Or(z3.And(t >= 65, t <= 90), z3.And(t >= 97, t <= 122)), ualpha(t))
    p = V.all_in(st.ctx, s, alpha, "isalpha")
    yield VBool(z3.And(s.len() > 0, p)), st


def m_startswith(ex, st, s, args, kwargs, node):
    p = args[0]
    if p.conc is None:
        raise Unsupported("startswith(symbolic)")
    yield VBool(V.str_eq(st.ctx, V.slice_(st.ctx, s, None, iv(len(p.conc))), p)), st


def m_endswith(ex, st, s, args, kwargs, node):
    p = args[0]
    if p.conc is None:
        raise Unsupported("endswith(symbolic)")
    L = len(p.conc)
    n = s.len()
    tail = VStr(s.a, V.name_term(st.ctx, z3.If(n >= L, s.hi - L, s.lo), 'ew'), s.hi)
    yield VBool(z3.And(n >= L, V.str_eq(st.ctx, tail, p))), st


def m_encode(ex, st, s, args, kwargs, node):
    enc = args[0].conc if args else kwargs.get("encoding", lit("utf-8")).conc
    if enc in ("utf8", "utf-8") and "errors" in kwargs and kwargs["errors"].conc == "ignore":
        # library contract: the UTF-8 bytes of the text with lone surrogates dropped -- an opaque
        # function of the text (RFC 3629 arithmetic is the subject of the bridging lemma)
        if s.conc is not None:
            yield lit(s.conc.encode("utf8", errors="ignore"), "bytes"), st
            return
        yield opaque_str(st.ctx, "utf8_ignore", s, kind="bytes"), st
        return
    if enc == "idna":
        # stdlib IDNA 2003 codec: opaque function of the text; result is ASCII (library contract)
        ok = opaque_bool(st.ctx, "idna2003_ok", s)
        for kind, s2 in ex.raise_or_oblige(st, UnicodeError, ok, "idna-2003-encodable", node):
            if kind == "ok":
                r = idna_result(ex, s2.ctx, "idna2003", s, lower=False)
                yield VStr(r.a, r.lo, r.hi, kind="bytes"), s2
            else:
                yield _raised()(VExc(UnicodeError)), s2
        return
    if enc == "ascii":
        ok = V.is_ascii(st.ctx, s)
        for kind, s2 in ex.raise_or_oblige(st, UnicodeEncodeError, ok, "ascii-encodable", node):
            if kind == "ok":
                yield VStr(s.a, s.lo, s.hi, conc=None if s.conc is None else s.conc.encode("ascii"), kind="bytes"), s2
            else:
                yield _raised()(VExc(UnicodeEncodeError)), s2
        return
    raise Unsupported(f"encode({enc})")


def m_decode(ex, st, s, args, kwargs, node):
    enc = args[0].conc if args else "utf-8"
    if enc == "ascii" and s.kind == "bytes":
        ok = V.all_in(st.ctx, s, lambda t: t < 128, "isascii")
        for kind, s2 in ex.raise_or_oblige(st, UnicodeDecodeError, ok, "ascii-decodable", node):
            if kind == "ok":
                yield VStr(s.a, s.lo, s.hi, conc=None if s.conc is None else s.conc.decode("ascii"), kind="str"), s2
            else:
                yield _raised()(VExc(UnicodeDecodeError)), s2
        return
    raise Unsupported(f"decode({enc})")


def m_split(ex, st, s, args, kwargs, node):
    """str.split(<one character>): the list of segments, an opaque function of the text with at
    least one element (library contract; join is its inverse)"""
    sep = args[0]
    if sep.conc is None or len(sep.conc) != 1 or len(args) > 1:
        raise Unsupported("split with this separator")
    if getattr(ex, "split_model", None) == "plist":
        from . import plist
        yield plist.VPList([("s", s)], sep.conc, fresh=True), st
        return
    if s.conc is not None:
        yield as_seglist(st.ctx, VList([lit(x) for x in s.conc.split(sep.conc)])), st
        return
    key = ("split", sep.conc) + _skey(s)
    m = _memo(st.ctx)
    if key not in m:
        v = V.fresh_str(st.ctx, "split", "segs")
        st.ctx.add(v.len() >= 1)
        m[key] = v
    yield VSList(m[key], fresh=True), st


def m_join(ex, st, s, args, kwargs, node):
    seq = args[0]
    if isinstance(seq, VStream):
        if seq.spec.stream_result is None or s.conc != "":
            raise Unsupported("join of an output stream")
        yield seq.spec.stream_result(ex, st, seq), st
        return
    from . import plist
    if isinstance(seq, plist.VPList):
        yield from plist.join(ex, st, seq, s, node)
        return
    if isinstance(seq, VSList):
        if s.conc is None:
            raise Unsupported("join with symbolic separator")
        yield opaque_str(st.ctx, f"join[{s.conc}]", seq.view), st
        return
    if not isinstance(seq, (VList, VTuple)):
        raise Unsupported("join of symbolic sequence")
    parts = []
    for i, it in enumerate(seq.items):
        if i:
            parts.append(s)
        parts.append(it)
    yield V.concat(st.ctx, parts), st


def m_format(ex, st, s, args, kwargs, node):
    yield V.fresh_str(st.ctx, "fmt"), st


STR_METHODS = {
    "find": m_find, "rfind": m_rfind, "partition": m_partition, "rpartition": m_rpartition,
    "lstrip": m_lstrip, "rstrip": m_rstrip, "replace": m_replace, "lower": m_lower,
    "isascii": m_isascii, "isdigit": m_isdigit, "isalpha": m_isalpha, "startswith": m_startswith,
    "endswith": m_endswith, "encode": m_encode, "decode": m_decode, "join": m_join, "format": m_format,
    "split": m_split,
}


# ------------------------------------------------------------------ builtins

def b_len(ex, st, args, kwargs, node):
    v = args[0]
    if isinstance(v, VStr):
        yield VInt(v.len()), st
    elif isinstance(v, (VTuple, VList)):
        yield VInt(len(v.items)), st
    elif isinstance(v, VSList):
        yield VInt(v.view.len()), st
    elif isinstance(v, VDict):
        yield VInt(len(v.d)), st
    elif type(v).__name__ == "VPList":
        from . import plist
        yield VInt(plist.length(st.ctx, v)), st
    else:
        raise Unsupported(f"len of {v!r}")


def b_int(ex, st, args, kwargs, node):
    v = args[0]
    if isinstance(v, VInt):
        yield v, st
        return
    if isinstance(v, VBool):
        yield VInt(z3.If(v.t, 1, 0)), st
        return
    base = kwargs.get("base", args[1] if len(args) > 1 else None)
    if isinstance(v, VStr) and base is not None and isinstance(base, VInt) and base.conc() == 16:
        n = is_conc_int(v.len())
        if n is None or n > 4:
            raise Unsupported("int(symbolic-length, 16)")
        def hv(t):
            return z3.If(z3.And(t >= 48, t <= 57), t - 48, z3.If(z3.And(t >= 65, t <= 70), t - 55,
                         z3.If(z3.And(t >= 97, t <= 102), t - 87, -1)))
        ds = [hv(v.a[v.lo + i]) for i in range(n)]
        ok = z3.And([d >= 0 for d in ds] + [z3.BoolVal(n > 0)])
        val = iv(0)
        for d in ds:
            val = val * 16 + d
        for kind, s2 in ex.raise_or_oblige(st, ValueError, ok, "int(x,16)-of-hex-digits", node):
            if kind == "ok":
                yield VInt(V.name_term(s2.ctx, val, "hex")), s2
            else:
                yield _raised()(VExc(ValueError)), s2
        return
    if isinstance(v, VStr) and len(args) == 1 and not kwargs:
        if v.conc is not None:
            try:
                yield VInt(int(v.conc)), st
            except ValueError:
                yield _raised()(VExc(ValueError)), st
            return
        # Library contract of int(str): for a non-empty all-ASCII-digit string of at most 4300
        # characters it returns the decimal value; for any other string it MAY return any
        # integer (sign, whitespace, underscores, non-ASCII digits are accepted by CPython) or
        # raise ValueError.
        ctx = st.ctx
        digits = V.all_in(ctx, v, lambda t: z3.And(t >= 48, t <= 57), "asciidigits")
        strict = z3.And(v.len() > 0, digits)
        short = v.len() <= 4300
        dec = V.dec_value(ctx, v)
        may_raise = z3.Not(z3.And(strict, short))
        if ex.catchable(st, ValueError) and not st.guards:
            other = st.fork()
            # returning path: strict -> decimal value; lenient -> unconstrained integer
            ex.sol.push()
            try:
                r = fresh_int("int")
                st.ctx.add(z3.Implies(strict, r == dec))
                st.assume(z3.Or(z3.Not(strict), short))
                if st.feasible():
                    yield VInt(r), st
            finally:
                ex.sol.pop()
            ex.sol.push()
            try:
                other.assume(may_raise)
                if other.feasible():
                    yield _raised()(VExc(ValueError)), other
            finally:
                ex.sol.pop()
        else:
            ex.oblige(st, "int()-cannot-raise", "safety", z3.And(strict, short), node, {"exception": "ValueError"})
            if not st.guards:
                st.ctx.assume(z3.And(strict, short))
            yield VInt(dec), st
        return
    raise Unsupported(f"int({v!r})")


def b_str(ex, st, args, kwargs, node):
    if not args:
        yield lit(""), st
        return
    yield ex.to_str(st, args[0]), st


def b_bool(ex, st, args, kwargs, node):
    yield VBool(ex.truth(st, args[0])), st


def b_ord(ex, st, args, kwargs, node):
    s = args[0]
    yield VInt(ex.char_code(s)), st


def b_chr(ex, st, args, kwargs, node):
    v = args[0]
    c = v.conc()
    if c is not None:
        yield lit(chr(c)), st
        return
    r = V.fresh_str(st.ctx, "chr")
    st.ctx.add(r.len() == 1, r.a[0] == v.t)
    yield VStr(r.a, 0, 1), st


def b_isinstance(ex, st, args, kwargs, node):
    v, t = args
    def ty(x):
        if isinstance(x, VConst):
            return x.obj
        nm = getattr(x, "name", None)
        m = {"str": str, "int": int, "bool": bool, "tuple": tuple, "list": list, "type": type, "bytes": bytes}
        if nm in m:
            return m[nm]
        raise Unsupported(f"isinstance against {x!r}")
    types_ = [ty(x) for x in t.items] if isinstance(t, VTuple) else [ty(t)]
    yield VBool(any(_isinst(v, ty) for ty in types_)), st


def b_issubclass(ex, st, args, kwargs, node):
    def ty(x):
        if isinstance(x, VConst):
            return x.obj
        nm = getattr(x, "name", None)
        m = {"str": str, "int": int, "bool": bool, "tuple": tuple, "list": list, "type": type}
        if nm in m:
            return m[nm]
        raise Unsupported(f"issubclass with {x!r}")
    c = ty(args[0])
    t = tuple(ty(x) for x in args[1].items) if isinstance(args[1], VTuple) else ty(args[1])
    yield VBool(issubclass(c, t)), st


def _isinst(v, ty):
    if isinstance(v, VStr):
        return issubclass(str if v.kind == "str" else bytes, ty)
    if isinstance(v, VBool):
        return issubclass(bool, ty)
    if isinstance(v, VInt):
        return issubclass(int, ty)
    if isinstance(v, VNone):
        return issubclass(type(None), ty)
    if isinstance(v, VTuple):
        return issubclass(tuple, ty)
    if isinstance(v, VList):
        return issubclass(list, ty)
    if isinstance(v, VDict):
        return issubclass(dict, ty)
    if isinstance(v, VConst):
        return isinstance(v.obj, ty)
    if isinstance(v, VObj):
        return getattr(ty, "__name__", None) == v.cls or ty is object
    raise Unsupported(f"isinstance of {v!r}")


def b_type(ex, st, args, kwargs, node):
    v = args[0]
    if isinstance(v, VStr):
        yield VConst(str if v.kind == "str" else bytes), st
    elif isinstance(v, VBool):
        yield VConst(bool), st
    elif isinstance(v, VInt):
        yield VConst(int), st
    elif isinstance(v, VNone):
        yield VConst(type(None)), st
    elif isinstance(v, VConst):
        yield VConst(type(v.obj)), st
    elif isinstance(v, VObj):
        yield VConst(ex.class_object(v.cls)), st
    elif isinstance(v, VTuple):
        yield VConst(tuple), st
    elif isinstance(v, VList):
        yield VConst(list), st
    elif isinstance(v, VDict):
        yield VConst(dict), st
    else:
        raise Unsupported(f"type of {v!r}")


def b_tuple(ex, st, args, kwargs, node):
    if not args:
        yield VTuple([]), st
        return
    v = args[0]
    if isinstance(v, (VTuple, VList)):
        yield VTuple(v.items), st
        return
    if type(v).__name__ == "VPList":
        yield v.copy(fresh=True), st
        return
    raise Unsupported("tuple(symbolic)")


def b_list(ex, st, args, kwargs, node):
    if not args:
        yield VList([]), st
        return
    v = args[0]
    if isinstance(v, (VTuple, VList)):
        yield VList(list(v.items), fresh=True), st
        return
    if type(v).__name__ == "VPList":
        yield v.copy(fresh=True), st
        return
    raise Unsupported("list(symbolic)")


def b_reversed(ex, st, args, kwargs, node):
    v = args[0]
    if isinstance(v, (VTuple, VList)):
        yield VList(list(reversed(v.items)), fresh=True), st
        return
    raise Unsupported("reversed(symbolic)")


def b_enumerate(ex, st, args, kwargs, node):
    v = args[0]
    if isinstance(v, (VTuple, VList)):
        yield VList([VTuple([VInt(i), x]) for i, x in enumerate(v.items)], fresh=True), st
        return
    raise Unsupported("enumerate(symbolic)")


def b_hash(ex, st, args, kwargs, node):
    # hash of a tuple of strings: an opaque function of the contents (library contract)
    v = args[0]
    if isinstance(v, VTuple) and all(isinstance(x, VStr) for x in v.items):
        yield VInt(V.hash_of(st.ctx, v.items)), st
        return
    raise Unsupported("hash of this value")


# ------------------------------------------------------------------ regex / unicodedata (opaque, functional)

def re_match(ex, st, args, kwargs, node):
    pat, s = args[0], args[1]
    if pat.conc is None:
        raise Unsupported("re.match with symbolic pattern")
    if isinstance(s, VStr) and s.conc is not None:
        yield (VConst(True) if re.match(pat.conc, s.conc) else NONE), st
        return
    b = opaque_bool(st.ctx, f"re.match[{pat.conc}]", s)
    # result is a match object or None: only its truthiness is used
    yield VBool(b), st


def ud_normalize(ex, st, args, kwargs, node):
    form, s = args
    r = opaque_str(st.ctx, f"normalize[{form.conc}]", s)
    # NFKC of an ASCII string is the string itself
    yield r, st


# ------------------------------------------------------------------ spec primitives

def p_first_of(ex, st, args, kwargs, node):
    s, chars = args[0], args[1]
    start = args[2].t if len(args) > 2 else None
    if s.conc is not None and start is None:
        idx = [i for i, c in enumerate(s.conc) if c in chars.conc]
        yield VInt(idx[0] if idx else len(s.conc)), st
        return
    yield VInt(V.first_of(st.ctx, s, V.codes_of(chars), start)), st


def p_first_not_of(ex, st, args, kwargs, node):
    s, chars = args[0], args[1]
    yield VInt(V.first_of(st.ctx, s, V.codes_of(chars), None, negate=True)), st


def p_last_index(ex, st, args, kwargs, node):
    s, ch = args
    yield VInt(V.find(st.ctx, s, ch, reverse=True)), st


def p_all_chars_in(ex, st, args, kwargs, node):
    s, chars = args
    codes = V.codes_of(chars)
    yield VBool(V.all_in(st.ctx, s, lambda t: V.in_set(t, codes), "allin")), st


def p_lower_ascii(ex, st, args, kwargs, node):
    yield V.lower(st.ctx, args[0]), st


def p_remove_char(ex, st, args, kwargs, node):
    s, c = args
    yield V.remove_char(st.ctx, s, ord(c.conc)), st


def p_dec_value(ex, st, args, kwargs, node):
    yield VInt(V.dec_value(st.ctx, args[0])), st


def p_is_ascii_digits(ex, st, args, kwargs, node):
    s = args[0]
    p = V.all_in(st.ctx, s, lambda t: z3.And(t >= 48, t <= 57), "asciidigits")
    yield VBool(z3.And(s.len() > 0, p)), st


def p_re_match(ex, st, args, kwargs, node):
    yield from re_match(ex, st, args, kwargs, node)


def p_nfkc(ex, st, args, kwargs, node):
    yield opaque_str(st.ctx, "normalize[NFKC]", args[0]), st


def p_opaque_bool(ex, st, args, kwargs, node):
    name = args[0].conc
    yield VBool(opaque_bool(st.ctx, name, *args[1:])), st


def p_cut(ex, st, args, kwargs, node):
    yield NONE, st


def p_hash_parts(ex, st, args, kwargs, node):
    yield VInt(V.hash_of(st.ctx, list(args))), st


def p_config_of(ex, st, args, kwargs, node):
    from contracts import spec_quote
    yield ex.wrap(spec_quote.config_of(args[0].obj)), st


def p_code_at(ex, st, args, kwargs, node):
    s, i = args
    n = s.len()
    ok = z3.And(i.t >= 0, i.t < n)
    for kind, s2 in ex.raise_or_oblige(st, IndexError, ok, "index-in-range", node):
        if kind == "ok":
            if s.conc is not None and i.conc() is not None:
                c = s.conc[i.conc()]
                yield VInt(c if isinstance(c, int) else ord(c)), s2
            else:
                yield VInt(s.a[V.name_term(s2.ctx, s.lo + i.t, "ca")]), s2
        else:
            yield _raised()(VExc(IndexError)), s2


def as_seglist(ctx, v):
    if isinstance(v, VSList):
        return v
    if isinstance(v, (VList, VTuple)):
        r = V.fresh_str(ctx, "segs", "segs")
        ctx.add(r.len() == len(v.items))
        for i, it in enumerate(v.items):
            ctx.add(r.a[i] == _seg_of(it))
        return VSList(VStr(r.a, 0, len(v.items), kind="segs"), fresh=getattr(v, "fresh", True))
    raise Unsupported(f"segment list expected, got {v!r}")


def _not_dot(t):
    return z3.And(t != 1, t != 2)


def p_segs_no_dots(ex, st, args, kwargs, node):
    yield VBool(V.all_in(st.ctx, as_seglist(st.ctx, args[0]).view, _not_dot, "nodots")), st


def p_segs_no_dots_upto(ex, st, args, kwargs, node):
    v = as_seglist(st.ctx, args[0]).view
    k = args[1].t
    yield VBool(V.all_in(st.ctx, VStr(v.a, v.lo, V.name_term(st.ctx, v.lo + k, "up"), kind="segs"), _not_dot, "nodots")), st


def p_segs_prefix_equal(ex, st, args, kwargs, node):
    a, b, k = as_seglist(st.ctx, args[0]).view, as_seglist(st.ctx, args[1]).view, args[2].t
    yield VBool(z3.And(a.len() == k, V.str_eq(st.ctx, a, VStr(b.a, b.lo, V.name_term(st.ctx, b.lo + k, "up"), kind="segs")))), st


def p_segs_step(ex, st, args, kwargs, node):
    """one step of RFC 3986 5.2.4 on the output stack: '..' removes the last output segment if
    there is one, '.' changes nothing, any other segment is appended"""
    ol, nw = as_seglist(st.ctx, args[0]).view, as_seglist(st.ctx, args[2]).view
    e = _seg_of(args[1])
    ctx = st.ctx
    n = ol.len()
    shorter = VStr(ol.a, ol.lo, V.name_term(ctx, ol.hi - 1, "sp"), kind="segs")
    same = V.str_eq(ctx, nw, ol)
    popped = V.str_eq(ctx, nw, shorter)
    pre = VStr(nw.a, nw.lo, V.name_term(ctx, nw.hi - 1, "sp"), kind="segs")
    pushed = z3.And(nw.len() == n + 1, V.str_eq(ctx, pre, ol), nw.a[V.name_term(ctx, nw.hi - 1, "sp")] == e)
    yield VBool(z3.Or(z3.And(e == 2, n > 0, popped), z3.And(e == 2, n == 0, same), z3.And(e == 1, same),
                      z3.And(e != 1, e != 2, pushed))), st



# ------------------------------------------------------------------ incremental UTF-8 decoder (C06)

def new_decoder(ex, st, args, kwargs, node):
    """codecs.getincrementaldecoder('utf-8')(): an object whose only state is the list of bytes it
    holds back (`buffer`), initially empty"""
    buf = VList([], fresh=True)
    buf.bytes = True
    ex.assumed_contracts.add("codecs: the incremental UTF-8 decoder -- decode(one byte) returns the character when the held-back "
                             "bytes plus this byte are a well-formed sequence (Unicode Table 3-7), '' (keeping the byte) when they "
                             "are a proper prefix of one, and raises UnicodeDecodeError leaving its buffer unchanged otherwise; "
                             "reset() empties the buffer (cross-checked by the bounded stand-in of C06)")
    yield VObj("Utf8Decoder", {"buffer": buf}, fresh=True), st


def _utf8_status(bs):
    """(complete, prefix, code point term) for 1..4 byte terms"""
    b0 = bs[0]
    n = len(bs)

    def rng(x, lo, hi):
        return z3.And(x >= lo, x <= hi)
    need = z3.If(b0 < 128, 0, z3.If(rng(b0, 194, 223), 1, z3.If(rng(b0, 224, 239), 2, z3.If(rng(b0, 240, 244), 3, -1))))

    def cont_ok(i, b):
        if i == 1:
            return z3.If(b0 == 224, rng(b, 160, 191), z3.If(b0 == 237, rng(b, 128, 159),
                         z3.If(b0 == 240, rng(b, 144, 191), z3.If(b0 == 244, rng(b, 128, 143), rng(b, 128, 191)))))
        return rng(b, 128, 191)
    def cont_held(i, b):
        # CPython holds ED A0..BF back until the third byte (contracts/spec_unquote.py:cont_held)
        if i == 1:
            return z3.If(b0 == 237, rng(b, 128, 191), cont_ok(i, b))
        return cont_ok(i, b)
    conts = z3.And([cont_ok(i, bs[i]) for i in range(1, n)] + [z3.BoolVal(True)])
    held = z3.And([cont_held(i, bs[i]) for i in range(1, n)] + [z3.BoolVal(True)])
    complete = z3.And(need == n - 1, conts)
    prefix = z3.And(need > n - 1, held)
    if n == 1:
        cp = b0
    elif n == 2:
        cp = (b0 - 192) * 64 + (bs[1] - 128)
    elif n == 3:
        cp = (b0 - 224) * 4096 + (bs[1] - 128) * 64 + (bs[2] - 128)
    else:
        cp = (b0 - 240) * 262144 + (bs[1] - 128) * 4096 + (bs[2] - 128) * 64 + (bs[3] - 128)
    return complete, prefix, cp


def decoder_method(ex, st, dec, name, args, kwargs, node):
    buf = dec.fields["buffer"]
    if name == "reset" and not args:
        ex.check_frame(st, dec, node)
        nb = VList([], fresh=True)
        nb.bytes = True
        dec.fields["buffer"] = nb
        yield NONE, st
        return
    if name == "decode" and len(args) == 1 and isinstance(args[0], VList) and len(args[0].items) == 1:
        bs = [x.t for x in buf.items] + [args[0].items[0].t]
        if len(bs) > 4:
            raise Unsupported("incremental decoder holding more than three bytes")
        complete, prefix, cp = _utf8_status(bs)
        ok = z3.Or(complete, prefix)
        for kind, s2 in ex.raise_or_oblige(st, UnicodeDecodeError, ok, "utf-8-decodable", node):
            if kind != "ok":
                yield _raised()(VExc(UnicodeDecodeError)), s2
                continue
            for b, s3 in ex.branch(s2, complete):
                d3 = s3.tr(dec)
                nb = VList([], fresh=True) if b else VList([VInt(t) for t in bs], fresh=True)
                nb.bytes = True
                d3.fields["buffer"] = nb
                if b:
                    r = V.fresh_str(s3.ctx, "dec")
                    s3.ctx.add(r.len() == 1, r.a[0] == V.name_term(s3.ctx, cp, "cp"))
                    yield VStr(r.a, 0, 1), s3
                else:
                    yield lit(""), s3
        return
    raise Unsupported(f"decoder.{name}")


def b_bytes(ex, st, args, kwargs, node):
    if len(args) == 1 and isinstance(args[0], VList) and all(isinstance(x, VInt) for x in args[0].items):
        r = VList(list(args[0].items), fresh=True)
        r.bytes = True
        yield r, st
        return
    raise Unsupported("bytes(...) of this argument")


def inner_requoter(qs):
    """the unquoter's inner quoters on one character (finite obligation in contracts/finite_unquote.py
    checks the real objects against contracts.spec_unquote.requote_one)"""
    def fn(ex, st, args, kwargs, node):
        from contracts import spec_unquote
        x = args[0]
        if not (isinstance(x, VStr) and z3.is_true(z3.simplify(x.len() == 1))):
            raise Unsupported("inner quoter applied to something else than one character")
        c = ex.char_code(x)
        dom = [43, 61, 38, 59] if qs else list(range(128))
        ex.oblige(st, "inner-quoter:argument-in-the-finitely-checked-domain", "pre", V.in_set(c, dom), node, {})
        lits = sorted(ord(ch) for ch in spec_unquote.GENERIC_LITERALS if not (qs and ch in "+&=;"))
        for b, s2 in ex.branch(st, V.in_set(c, lits)):
            if b:
                yield x, s2
            else:
                r = V.fresh_str(s2.ctx, "rq")

                def hx(d):
                    return z3.If(d < 10, d + 48, d + 55)
                s2.ctx.add(r.len() == 3, r.a[0] == 37, r.a[1] == hx(c / 16), r.a[2] == hx(c % 16))
                yield VStr(r.a, 0, 3), s2
    return fn


# ------------------------------------------------------------------ host canonicalisation (C16)

REGNAME_CODES = sorted(ord(c) for c in "abcdefghijklmnopqrstuvwxyz0123456789-._~!$&'()*+,;=")
HEXL_CODES = sorted(ord(c) for c in "0123456789abcdef")


def regname_bad_at(ctx, s):
    """Int term: first index of s that is not reg-name text (lower case), -1 if none; the same
    term for the same view (so the regular expression in the code and the specification's
    primitive denote one function -- contracts/finite_host.py checks the real pattern against
    this definition)"""
    from contracts import prims
    if s.conc is not None:
        return V.iv(prims.regname_bad_at(s.conc))
    key = ("regname_bad_at",) + _skey(s)
    m = _memo(ctx)
    if key in m:
        return m[key]
    r = V.fresh_int("rnb")
    A, lo, hi = s.a, s.lo, s.hi

    def ok(k):
        return z3.If(A[k] == 37,
                     z3.And(k + 2 < hi, V.in_set(A[k + 1], HEXL_CODES), V.in_set(A[k + 2], HEXL_CODES)),
                     V.in_set(A[k], REGNAME_CODES))
    ctx.add(z3.And(r >= -1, r < hi - lo))
    ctx.addq("regname-ok-before", A, lambda k: z3.Implies(z3.And(lo <= k, k < z3.If(r < 0, hi, lo + r)), ok(k)))
    ctx.add(z3.Implies(r >= 0, z3.Not(ok(lo + r))))
    ctx.bound(lo, hi - 1, lo + r)
    m[key] = r
    return r


def p_regname_bad_at(ex, st, args, kwargs, node):
    yield VInt(regname_bad_at(st.ctx, args[0])), st


def pattern_search(ex, st, pattern, subject, node):
    """<compiled pattern>.search(s) for the one pattern shape that has a model: the reg-name
    screen.  The result is None or a match object with start() and group()."""
    from contracts import finite_host
    if not finite_host.is_regname_screen(pattern):
        raise Unsupported(f"regex search {pattern.pattern!r} has no model")
    ex.assumed_contracts.add("re: Pattern.search of the reg-name screen == first index outside the reg-name grammar "
                             "(parse tree + exhaustive window check in contracts/finite_host.py)")
    r = regname_bad_at(st.ctx, subject)
    rt = V.name_term(st.ctx, r, "rs") if not z3.is_int_value(r) else r
    grp = V.intern_view(st.ctx, VStr(subject.a, subject.lo + rt, subject.lo + rt + 1))
    m = VObj("Match", {"_start": VInt(rt), "_group": grp}, fresh=False)
    c = z3.simplify(rt < 0)
    if z3.is_true(c):
        return NONE
    if z3.is_false(c):
        return m
    return V.VOpt(c, m)


def p_is_udigit(ex, st, args, kwargs, node):
    s = args[0]
    if s.conc is not None:
        yield VBool(s.conc.isdigit()), st
        return
    yield VBool(z3.And(s.len() == 1, V.is_digit_code(s.a[s.lo]))), st


def p_is_lower_ascii(ex, st, args, kwargs, node):
    s = args[0]
    yield VBool(V.all_in(st.ctx, s, lambda t: z3.And(t < 128, z3.Not(z3.And(t >= 65, t <= 90))), "lowerascii")), st


IP_CODES = sorted(ord(c) for c in "0123456789abcdef:.")


def ip_symbols(ex, ctx, s):
    """ipaddress.ip_address(s): (ok, is_v6, compressed) -- opaque functions of the text with the
    assumed library contract: compressed is non-empty text over [0-9a-f:.] and has a colon
    exactly for version 6"""
    ok = opaque_bool(ctx, "ip_ok", s)
    v6 = opaque_bool(ctx, "ip_v6", s)
    key = ("ipc",) + _skey(s)
    m = _memo(ctx)
    if key not in m:
        c = V.fresh_str(ctx, "ipc")
        A, lo, hi = c.a, c.lo, c.hi
        ctx.add(c.len() > 0)
        ctx.addq("ip-alphabet", A, lambda k: z3.Implies(z3.And(lo <= k, k < hi), V.in_set(A[k], IP_CODES)))
        sk = V.fresh_int("ipk")
        ctx.add(z3.Implies(v6, z3.And(lo <= sk, sk < hi, A[sk] == 58)))
        ctx.addq("ip-v4-no-colon", A, lambda k: z3.Implies(z3.And(z3.Not(v6), lo <= k, k < hi), A[k] != 58))
        ctx.bound(lo, hi - 1, sk)
        m[key] = c
        ex.assumed_contracts.add("ipaddress: ip_address(s).compressed is non-empty text over [0-9a-f:.] that has a ':' "
                                 "exactly when version == 6; version is 4 or 6; ValueError otherwise")
    return ok, v6, m[key]


def ip_address_prim(ex, st, args, kwargs, node):
    s = args[0]
    ok, v6, c = ip_symbols(ex, st.ctx, s)
    for kind, s2 in ex.raise_or_oblige(st, ValueError, ok, "ip-address-parses", node):
        if kind == "ok":
            yield VObj("IPAddr", {"compressed": c, "version": VInt(z3.If(v6, V.iv(6), V.iv(4)))}, fresh=False), s2
        else:
            yield _raised()(VExc(ValueError)), s2


def p_ip_ok(ex, st, args, kwargs, node):
    yield VBool(ip_symbols(ex, st.ctx, args[0])[0]), st


def p_ip_version(ex, st, args, kwargs, node):
    yield VInt(z3.If(ip_symbols(ex, st.ctx, args[0])[1], V.iv(6), V.iv(4))), st


def p_ip_compressed(ex, st, args, kwargs, node):
    yield ip_symbols(ex, st.ctx, args[0])[2], st


def idna_result(ex, ctx, name, s, lower):
    key = ("idna", name) + _skey(s)
    m = _memo(ctx)
    if key not in m:
        r = V.fresh_str(ctx, name)
        A, lo, hi = r.a, r.lo, r.hi
        ctx.add(z3.Implies(s.len() > 0, r.len() > 0))     # library contract: empty labels are an error
        if lower:
            ctx.addq(name + "-lower-ascii", A, lambda k: z3.Implies(z3.And(lo <= k, k < hi),
                                                                    z3.And(A[k] < 128, z3.Not(z3.And(A[k] >= 65, A[k] <= 90)))))
            ex.assumed_contracts.add("idna: idna.encode(s, uts46=True) returns non-empty lower-case ASCII bytes or raises idna.IDNAError (a UnicodeError)")
        else:
            ctx.addq(name + "-ascii", A, lambda k: z3.Implies(z3.And(lo <= k, k < hi), A[k] < 128))
            ex.assumed_contracts.add("stdlib idna codec: str.encode('idna') of non-empty text returns non-empty ASCII bytes or raises UnicodeError")
        m[key] = r
    return m[key]


def idna_encode_prim(ex, st, args, kwargs, node):
    s = args[0]
    ok = opaque_bool(st.ctx, "idna2008_ok", s)
    for kind, s2 in ex.raise_or_oblige(st, UnicodeError, ok, "idna-2008-encodable", node):
        if kind == "ok":
            r = idna_result(ex, s2.ctx, "idna2008", s, lower=True)
            yield VStr(r.a, r.lo, r.hi, kind="bytes"), s2
        else:
            yield _raised()(VExc(UnicodeError)), s2


def p_idna2008_ok(ex, st, args, kwargs, node):
    yield VBool(opaque_bool(st.ctx, "idna2008_ok", args[0])), st


def p_idna2003_ok(ex, st, args, kwargs, node):
    yield VBool(opaque_bool(st.ctx, "idna2003_ok", args[0])), st


def p_idna2008(ex, st, args, kwargs, node):
    yield idna_result(ex, st.ctx, "idna2008", args[0], lower=True), st


def p_idna2003(ex, st, args, kwargs, node):
    yield idna_result(ex, st.ctx, "idna2003", args[0], lower=False), st


SPEC_PRIMS = {
    "regname_bad_at": p_regname_bad_at, "is_udigit": p_is_udigit, "is_lower_ascii": p_is_lower_ascii,
    "ip_ok": p_ip_ok, "ip_version": p_ip_version, "ip_compressed": p_ip_compressed,
    "idna2008_ok": p_idna2008_ok, "idna2003_ok": p_idna2003_ok, "idna2008": p_idna2008, "idna2003": p_idna2003,
    "segs_step": p_segs_step,
    "segs_no_dots": p_segs_no_dots, "segs_no_dots_upto": p_segs_no_dots_upto, "segs_prefix_equal": p_segs_prefix_equal,
    "hash_parts": p_hash_parts,
    "CUT": p_cut,
    "first_of": p_first_of, "first_not_of": p_first_not_of, "last_index": p_last_index,
    "all_chars_in": p_all_chars_in, "lower_ascii": p_lower_ascii, "remove_char": p_remove_char,
    "dec_value": p_dec_value, "is_ascii_digits": p_is_ascii_digits, "re_match_": p_re_match,
    "nfkc": p_nfkc,
}


def quoter_contract(name):
    """Abstract contract of a quoter instance at its call sites (assumed here; it is the
    postcondition C01-O1 that the quoter proofs discharge): the result is a function of the
    argument, it is '' for '', and every character is in the component's output alphabet."""
    from contracts import spec_quote
    codes = [ord(c) for c in spec_quote.out_alphabet(name)]

    def fn(ex, st, args, kwargs, node):
        s = args[0]
        if isinstance(s, VNone):
            yield NONE, st
            return
        if not isinstance(s, VStr):
            raise Unsupported(f"{name} applied to {s!r}")
        if s.conc is not None and s.conc == "":
            yield lit(""), st
            return
        key = ("quoter", name) + _skey(s)
        m = _memo(st.ctx)
        r = m.get(key)
        if r is None:
            r = V.fresh_str(st.ctx, name.lower())
            A, lo, hi = r.a, r.lo, r.hi
            st.ctx.addq(f"alphabet({name})", A, lambda k: z3.Implies(z3.And(lo <= k, k < hi), V.in_set(A[k], codes)))
            st.ctx.add(z3.Implies(s.len() == 0, r.len() == 0))
            r.tags["quoted_by"] = (name, s)
            if spec_quote.slash_stable_name(name):
                # no unit contains '/' unless the consumed character is '/'
                # (contracts.spec_quote.lemma_no_new_slash, proved for these quoters)
                st.ctx.add(z3.Implies(V.find(st.ctx, s, lit("/")) < 0, V.find(st.ctx, r, lit("/")) < 0))
                ex.lemmas_used.add("contracts.spec_quote:lemma_no_new_slash")
            m[key] = r
            ex.assumed_contracts.add(f"yarl._quoters:{name} (result alphabet = RFC 3986 literal set of the component + '%' + upper-case hex)")
        yield r, st
    return fn


def unquoter_contract(name):
    """A decoding function of yarl._quoters at its call sites: an opaque function of the text
    ('' for ''); what it computes is the subject of C06's bounded stand-in, the contracts of the
    decoded accessors only pin *which* decoder each accessor applies to which raw component."""
    def fn(ex, st, args, kwargs, node):
        s = args[0]
        if isinstance(s, VNone):
            yield NONE, st
            return
        if not isinstance(s, VStr):
            raise Unsupported(f"{name} applied to {s!r}")
        if s.conc is not None and s.conc == "":
            yield lit(""), st
            return
        r = opaque_str(st.ctx, "unquote[" + name + "]", s)
        st.ctx.add(z3.Implies(s.len() == 0, r.len() == 0))
        ex.assumed_contracts.add(f"yarl._quoters:{name} (opaque function of the text here; decided by the bounded stand-in of C06)")
        yield r, st
    return fn


EXTRA_PRIMS = []      # (object, name, fn): registered by contracts/registry.py for objects it creates


def install(ex):
    from .engine import Prim
    import unicodedata
    reg = ex.native_by_id
    for _obj, _name, _fn in EXTRA_PRIMS:
        reg[id(_obj)] = Prim(_name, _fn)

    def add(obj, name, fn):
        reg[id(obj)] = Prim(name, fn)
        ex._keep = getattr(ex, "_keep", [])
        ex._keep.append(obj)
    add(builtins.len, "len", b_len)
    add(builtins.int, "int", b_int)
    add(builtins.str, "str", b_str)
    add(builtins.bool, "bool", b_bool)
    add(builtins.ord, "ord", b_ord)
    add(builtins.isinstance, "isinstance", b_isinstance)
    add(builtins.issubclass, "issubclass", b_issubclass)
    add(builtins.type, "type", b_type)
    add(builtins.tuple, "tuple", b_tuple)
    add(builtins.list, "list", b_list)
    add(builtins.reversed, "reversed", b_reversed)
    add(builtins.enumerate, "enumerate", b_enumerate)
    add(builtins.hash, "hash", b_hash)
    add(builtins.chr, "chr", b_chr)
    add(builtins.bytes, "bytes", b_bytes)
    try:
        import typing
        import yarl._quoting_py as _qpy
        add(typing.cast, "typing.cast", lambda ex, st, args, kwargs, node: iter([(args[1], st)]))
        add(_qpy.utf8_decoder, "utf8_decoder", new_decoder)
    except ImportError:
        pass
    add(re.match, "re.match", re_match)
    add(unicodedata.normalize, "unicodedata.normalize", ud_normalize)
    try:
        import ipaddress
        import idna
        add(ipaddress.ip_address, "ipaddress.ip_address", ip_address_prim)
        add(idna.encode, "idna.encode", idna_encode_prim)
    except ImportError:
        pass
    ex.assumed_contracts = set()
    try:
        import yarl._quoters as _q
        from contracts import spec_quote
        for name in spec_quote.QUOTERS:
            add(getattr(_q, name), "quoter." + name, quoter_contract(name))
        for name in ("UNQUOTER", "PATH_UNQUOTER", "PATH_SAFE_UNQUOTER", "QS_UNQUOTER"):
            add(getattr(_q, name), "unquoter." + name, unquoter_contract(name))
        try:
            import yarl._url as _yu
            from contracts import spec_url as _spu

            def _idna_dec(ex, st, args, kwargs, node):
                s_ = args[0]
                ex.assumed_contracts.add("yarl._url:_idna_decode (idna / idna codec: external, an opaque function of the encoded host)")
                yield opaque_str(st.ctx, "idna_decode", s_), st
            add(_yu._idna_decode, "idna_decode", _idna_dec)
            add(_spu.idna_decode, "spec.idna_decode", _idna_dec)
        except (ImportError, AttributeError):
            pass
    except ImportError:
        pass
    try:
        from contracts import spec_quote as _sq
        add(_sq.config_of, "spec.config_of", p_config_of)
        add(_sq.code_at, "spec.code_at", p_code_at)
        add(_sq.quoter_name, "spec.quoter_name",
            lambda ex, st, args, kwargs, node: iter([(lit(_sq.quoter_name(args[0].obj)), st)]))
        add(_sq.requoter_of, "spec.requoter_of",
            lambda ex, st, args, kwargs, node: iter([(VConst(_sq.requoter_of(args[0].obj)), st)]))
        from . import cmodel as _cm
        add(_sq.c_inner, "spec.c_inner",
            lambda ex, st, args, kwargs, node: _cm.inner_call_contract(
                "quote_or_skip" if type(args[0].obj).__name__ == "_Quoter" else "do_unquote")(ex, st, args, kwargs, node))
        add(_sq.is_slash_stable, "spec.is_slash_stable",
            lambda ex, st, args, kwargs, node: iter([(VBool(_sq.is_slash_stable(args[0].obj)), st)]))
        add(_sq.skippable_text, "spec.skippable_text",
            lambda ex, st, args, kwargs, node: iter([(ex.wrap(_sq.skippable_text(args[0].obj)), st)]))
        add(_sq.component_alphabet, "spec.component_alphabet",
            lambda ex, st, args, kwargs, node: iter([(ex.wrap(_sq.component_alphabet(args[0].obj)), st)]))
    except ImportError:
        pass
    try:
        from contracts import spec_unquote as _su
        add(_su.config_of, "spec.unquote_config_of",
            lambda ex, st, args, kwargs, node: iter([(ex.wrap(_su.config_of(args[0].obj)), st)]))
    except ImportError:
        pass
    try:
        from contracts import prims
        for name, fn in SPEC_PRIMS.items():
            if hasattr(prims, name):
                add(getattr(prims, name), "spec." + name, fn)
    except ImportError:
        pass
