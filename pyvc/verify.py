"""Contracts and the verification driver.

A contract (sidecar, /verif/contracts) names a real function of /repo, the types of its
parameters, an optional precondition, the exception classes it may raise, loop invariants,
and an *executable specification* with the same signature.  The obligations generated for
the function are

  * refinement: on every path of the real code, the outcome (value or exception class)
    equals the outcome of the specification run on the same arguments;
  * the implicit safety obligations (no IndexError / KeyError / failing assert / library
    exception outside the contract) collected while executing the real code;
  * loop-invariant entry / preservation;
  * the preconditions of callees (calls are replaced by the callee's contract).

Every obligation is discharged by z3 on the quantifier-free instantiation (smt.prove);
a validated counter-model is concretised and replayed on the real function.
"""
from __future__ import annotations

import itertools
import os
import time
import traceback

import z3

from . import smt
from . import values as V
from .engine import Executor, ModuleSrc, UserFn, Raised, St, Obligation
from .values import NONE, VBool, VInt, VStr, VNone, VTuple, VList, VConst, Unsupported, lit

# parameter type descriptors
STR, INT, BOOL, URLT, BYTES = "str", "int", "bool", "url", "bytes"
URL_PARTS = ("scheme", "netloc", "path", "query", "fragment")


def OPT(t):
    return ("opt", t)


def UNION(*ts):
    return ("union",) + tuple(ts)


def CONST(*vals):
    return ("const", list(vals))


class LoopSpec:
    """contract of one loop: invariant; optionally the byte lists whose length the invariant
    bounds (havocked per length), the output streams, ghost variables, and the specification
    step expression every emission into a stream is checked against"""

    def __init__(self, spec, modsrc=None):
        if isinstance(spec, str):
            spec = {"inv": spec}
        self.raw = dict(spec)
        self.roles = spec.get("roles", False)       # the expressions name variables by role (__target, __acc)
        self.inv_src = spec["inv"]
        self.tree = compile_expr(self.inv_src)
        self.modsrc = modsrc
        self.lists = spec.get("lists", {})          # name -> (min_len, max_len)
        self.enums = spec.get("enums", {})          # name -> (lo, hi): integer locals enumerated case by case
        self.streams = spec.get("streams", [])      # names
        self.ghost = spec.get("ghost", {})          # name -> init expression
        self.step = compile_expr(spec["step"]) if "step" in spec else None
        self.exit = compile_expr(spec["exit"]) if "exit" in spec else None
        self.stream_result = spec.get("stream_result")   # callable(ex, st, stream) -> value of reading it
        self.step_post = compile_expr(spec["step_post"]) if "step_post" in spec else None   # relation old state -> new state of one iteration
        self.same = compile_expr(spec["same"]) if "same" in spec else None     # token leaves the text unchanged
        self.sync = compile_expr(spec["sync"]) if "sync" in spec else None     # pointer is in step with the code
        self.fields = spec.get("fields", {})        # object name -> {field: kind} havocked at the loop head
        self.writer = spec.get("writer")            # name of the writer object emissions go through
        self.multi_token = spec.get("multi_token", False)   # one emission may span several specification tokens
        self.str_stream = spec.get("str_stream", False)     # the stream is a list of strings (joined at the end)

    def _eval(self, ex, st, tree):
        g = st.env.get("__globals__")
        saved_env = st.env
        env = dict(st.env)
        if self.modsrc is not None:
            d = dict(g or {})
            d.update(self.modsrc.mod.__dict__)
            env["__globals__"] = d
        for k, v in st.ghost.items():
            env["G_" + k] = v
        st.env = env
        try:
            v, _ = ex.eval1(tree, st)
        finally:
            st.env = saved_env
        return v

    def invariant(self, ex, st):
        return ex.truth(st, self._eval(ex, st, self.tree))

    def _frame(self, st):
        """the frame of the function that contains the loop (emissions happen in callees)"""
        import ast as _ast
        need = {n.id for n in _ast.walk(self.step) if isinstance(n, _ast.Name) and not n.id.startswith("G_")} \
            if self.step is not None else set()
        env = st.env
        while env is not None:
            g = env.get("__globals__", {})
            if all((n in env) or (n in g) or (self.modsrc is not None and n in self.modsrc.mod.__dict__)
                   or hasattr(__import__("builtins"), n) for n in need):
                if any(n in env for n in need) or not need:
                    return env
            env = env.get("__caller_env__")
        return st.env

    def _with_env(self, st, extra=None):
        base = self._frame(st)
        g = base.get("__globals__")
        env = dict(base)
        if self.modsrc is not None:
            d = dict(g or {})
            d.update(self.modsrc.mod.__dict__)
            env["__globals__"] = d
        for k, v in st.ghost.items():
            env["G_" + k] = v
        if extra:
            env.update(extra)
        env["__caller_env__"] = st.env        # a pushed frame: forks clone the real frame chain with it
        return env

    def _token_done(self, ex, s2, unit, consumed, saved_env):
        """ghost update when the last part of a unit has been emitted (or an empty unit skipped)"""
        s2.ghost = dict(s2.ghost)
        if self.same is not None and "same" in s2.ghost:
            keep = s2.env
            env = self._with_env(s2, {"UNIT": unit, "CONSUMED": consumed})
            s2.env = env
            try:
                v, _ = ex.eval1(self.same, s2)
            finally:
                s2.env = keep
            s2.ghost["same"] = VBool(z3.And(s2.ghost["same"].t, ex.truth(s2, v)))
        s2.ghost["p"] = VInt(V.name_term(s2.ctx, s2.ghost["p"].t + consumed.t, "p"))
        if "k" in s2.ghost:
            s2.ghost["k"] = VInt(0)

    def emit(self, ex, st, stream, items, node):
        """one emission into a stream: it must be the next part of the unit that the
        specification's step function produces at the ghost pointer; when the unit is complete the
        pointer advances"""
        from .engine import Raised
        if self.step is None:
            raise Unsupported("stream without a step specification")
        k = st.ghost["k"].conc() if "k" in st.ghost else 0
        if k is None:
            raise Unsupported("symbolic offset inside a unit")
        items = [VInt(ex.char_code(x)) if isinstance(x, VStr) else x for x in items]
        if not items:
            yield st
            return
        saved_env = st.env
        st.env = self._with_env(st)
        depth = len(st.handled)
        st.handled.append((BaseException,))
        try:
            for v, s2 in ex.eval(self.step, st):
                del s2.handled[depth:]
                s2.env = saved_env if s2 is st else s2.env["__caller_env__"]
                if isinstance(v, Raised):
                    ex.oblige(s2, f"emit:{stream.name}:specification-step-raises", "emit", z3.BoolVal(False), node)
                    continue
                unit, consumed = v.items
                m = len(items)
                if k + m > len(unit.items):
                    if getattr(self, "multi_token", False):
                        # one emission covers several tokens (a run of escapes copied verbatim): match
                        # the rest of this unit, advance, and go on with the remaining characters
                        take = len(unit.items) - k
                        goal = z3.And([ex.equal(s2, a, b) for a, b in zip(items[:take], unit.items[k:])] + [z3.BoolVal(True)])
                        ex.oblige(s2, f"emit:{stream.name}==spec-unit[{k}:{k + take}]", "emit", goal, node)
                        s2.ctx.assume(goal)
                        self._token_done(ex, s2, unit, consumed, saved_env)
                        keep_env = s2.env
                        yield from self.emit(ex, s2, stream, items[take:], node)
                        continue
                    ex.oblige(s2, f"emit:{stream.name}:{k}+{m} characters emitted for a unit of {len(unit.items)}",
                              "emit", z3.BoolVal(False), node)
                    s2.ghost = dict(s2.ghost)
                    s2.ghost["p"] = VInt(V.name_term(s2.ctx, s2.ghost["p"].t + consumed.t, "p"))
                    yield s2
                    continue
                goal = z3.And([ex.equal(s2, a, b) for a, b in zip(items, unit.items[k:k + m])] + [z3.BoolVal(True)])
                ex.oblige(s2, f"emit:{stream.name}==spec-unit[{k}:{k + m}]", "emit", goal, node)
                s2.ctx.assume(goal)
                if k + m == len(unit.items):
                    self._token_done(ex, s2, unit, consumed, saved_env)
                else:
                    s2.ghost = dict(s2.ghost)
                    s2.ghost["k"] = VInt(k + m)
                yield s2
        finally:
            st.env = saved_env
            del st.handled[depth:]

    def settle(self, ex, st, cond_src):
        """at the end of an iteration: tokens whose unit is empty (a dropped character) are
        consumed without any emission; the pointer must still advance over them"""
        if self.step is None or self.sync is None:
            yield st
            return
        saved_env = st.env
        st.env = self._with_env(st)
        try:
            v, _ = ex.eval1(self.sync, st)
        finally:
            st.env = saved_env
        synced = ex.truth(st, v)
        if ex.sol.check(z3.Not(synced), timeout_ms=1000) == z3.unsat:
            yield st
            return
        from .engine import Raised
        st.env = self._with_env(st)
        depth = len(st.handled)
        st.handled.append((BaseException,))
        try:
            for v, s2 in ex.eval(self.step, st):
                del s2.handled[depth:]
                s2.env = saved_env if s2 is st else s2.env["__caller_env__"]
                if isinstance(v, Raised):
                    yield s2
                    continue
                unit, consumed = v.items
                if len(unit.items) == 0:
                    self._token_done(ex, s2, unit, consumed, saved_env)
                yield s2
        finally:
            st.env = saved_env
            del st.handled[depth:]


def _strip_ghost_env(env, saved_env):
    e = dict(env)
    for k in list(e):
        if k.startswith("G_"):
            del e[k]
    if "__globals__" in saved_env:
        e["__globals__"] = saved_env["__globals__"]
    return e


def compile_expr(src):
    import ast
    return ast.parse(src, mode="eval").body


class Cut:
    """Intermediate assertion relating the real function and its specification.
    `anchor`: source text (prefix) of the top-level statement of the real function *before*
    which the cut sits; `name`: the CUT("name") marker statement in the specification;
    `relation`: boolean expressions over the code's locals and, as S.<name>, the
    specification's locals.  They are proved when both sides reach the cut and assumed
    (over fresh symbols) when verification resumes after it."""

    def __init__(self, anchor, name, relation, types=None):
        self.anchor = anchor
        self.name = name
        self.relation = list(relation)
        self.types = types or {}


class Contract:
    def __init__(self, qual, params, spec=None, requires=None, raises=(), loops=None, props=(),
                 lift=None, note="", abstract=None, result_type=None, search=None, cuts=(),
                 opaque=False, shape=None, ensures=None, transparent=(), assumed=False, memo_transparent=(),
                 on_apply=None, shards=1, native_spec=None, spec_module=None, post=None, call_inline=False,
                 native_pre=None, native_post=None, split_model=None, congruent=False, memo_skip=(), tier=None):
        self.qual = qual              # "yarl._parse:split_netloc"
        self.params = params          # list[(name, type)]
        self.spec = spec              # native function object defined in a contracts module
        self.requires = requires      # native function object (same params) -> bool, or None
        self.raises = tuple(raises)
        self.loops = loops or {}
        self.props = tuple(props)
        self.lift = lift
        self.note = note
        self.abstract = abstract
        self.result_type = result_type
        self.search = search          # replay search space description
        self.cuts = list(cuts)
        self.opaque = opaque          # at call sites the result is an opaque function of the arguments
        self.shape = shape            # ... of this shape (STR / INT / BOOL / OPT(..) / tuple of shapes)
        self.ensures = ensures        # native function (params..., result) -> bool: facts callers may use
        self.transparent = set(transparent)   # callees whose executable specification is used in this proof
        self.assumed = assumed        # contract used at call sites but not (yet) proved for its function
        self.memo_transparent = set(memo_transparent)   # ... additionally while checking memo entries
        self.on_apply = on_apply      # hook instantiating a proved lemma for structured arguments
        self.shards = shards          # the paths of the real function are distributed over this many tasks
        self.native_spec = native_spec   # executable oracle for replays when `spec` cannot be run symbolically
        self.spec_module = spec_module   # module whose names loop contracts may use when spec is None
        self.post = post              # boolean expression over the locals, ghosts (G_*) and `result` at every return
        self.call_inline = call_inline   # callers execute the body (the function's effect is on its argument's memo)
        self.memo_skip = tuple(memo_skip)  # memo keys whose eager == lazy obligation is not attempted here (stated in the claim)
        self.tier = tier                 # "thorough": the contract is only run in the thorough tier
        self.congruent = congruent       # opaque applications on equal (not merely identical) strings give equal results
        self.split_model = split_model   # "plist": str.split lists are modelled at the string level (pyvc/plist.py)
        self.native_pre = native_pre     # engine-level precondition / pre-state capture (ex, st, args) -> pre
        self.native_post = native_post   # engine-level postcondition (ex, st, pre, flow, value, args)

    # --- use at a call site: the callee is its specification -----------------
    def apply(self, ex, st, args, kwargs, node, f):
        args = [to_spec_arg(x) for x in args]
        if self.requires is not None:
            rq = ex.wrap(self.requires)
            import inspect as _inspect
            nreq = len(_inspect.signature(self.requires).parameters)
            outs = list(call_spec(ex, st, rq, args[:nreq], kwargs if nreq > len(args) else {}, node))
            if len(outs) != 1 or isinstance(outs[0][0], Raised):
                raise Unsupported(f"precondition of {self.qual} forks or raises")
            v, st = outs[0]
            ex.oblige(st, f"requires:{self.qual}", "requires", ex.truth(st, v), node)
            st.ctx.assume(ex.truth(st, v))
        if self.abstract is not None:
            yield from self.abstract(ex, st, args, kwargs, node)
            return
        if self.opaque and self.qual not in getattr(ex, "transparent", ()):
            if self.assumed:
                ex.assumed_contracts.add(f"{self.qual} (assumed contract: opaque result" +
                                         (" with 'ensures' facts" if self.ensures else "") + ")")
            yield from self.apply_opaque(ex, st, args, kwargs, node)
            return
        yield from call_spec(ex, st, ex.wrap(self.spec), args, kwargs, node)

    def apply_opaque(self, ex, st, args, kwargs, node):
        """Modular call: the caller learns only that the outcome is *the* outcome of the
        callee's specification on these arguments (a function of the arguments: same argument
        terms, same outcome) plus the callee's `ensures` facts.  Whether it raises is an opaque
        predicate of the arguments."""
        import inspect
        names = list(inspect.signature(self.spec).parameters)
        bound = dict(zip(names, args))
        bound.update(kwargs)
        sig = inspect.signature(self.spec)
        full = []
        for n in names:
            if n in bound:
                full.append(bound[n])
            else:
                full.append(ex.wrap(sig.parameters[n].default))
        key = ("opaque", self.qual) + tuple(_argkey(a) for a in full)
        memo = getattr(st.ctx, "memo", None)
        if memo is None:
            memo = st.ctx.memo = {}
        ent = memo.get(key)
        if ent is None:
            tag = self.qual.split(":")[-1].replace(".", "_")
            res = _opaque_value(ex, st.ctx, tag, self.shape)
            raises = smt.fresh_bool(tag + "_raises") if self.raises else z3.BoolVal(False)
            ent = memo[key] = (raises, res)
            if self.ensures is not None:
                # facts about the result hold whenever the call returns
                st.guards.append(z3.BoolVal(True))     # value context: conditionals merge, nothing forks
                try:
                    outs = list(call_spec(ex, st, ex.wrap(self.ensures), full + [res], {}, node))
                finally:
                    st.guards.pop()
                if len(outs) != 1 or isinstance(outs[0][0], Raised) or outs[0][1] is not st:
                    raise Unsupported(f"ensures of {self.qual} forks")
                ov = outs[0][0]
                et = z3.And([ex.truth(st, x) for x in flatten_clauses(ov)]) if isinstance(ov, VTuple) else ex.truth(st, ov)
                st.ctx.add(z3.Implies(z3.Not(raises), et))
            if self.on_apply is not None:
                self.on_apply(ex, st, self, full, raises, res)
            if self.congruent and self.shape == STR:
                # the specification is a function of the argument *values*: an application to an equal
                # string (built differently) has the same outcome
                apps = memo.setdefault(("opaque-apps", self.qual), [])
                for oargs, oraises, ores in apps:
                    eqs = []
                    for a, b in zip(oargs, full):
                        if isinstance(a, VStr) and isinstance(b, VStr):
                            eqs.append(V.str_eq(st.ctx, a, b))
                        elif a is b:
                            continue
                        else:
                            eqs.append(z3.BoolVal(False))
                    st.ctx.add(z3.Implies(z3.And(eqs + [z3.BoolVal(True)]),
                                          z3.And(oraises == raises, V.str_eq(st.ctx, ores, res))))
                apps.append((full, raises, res))
        raises, res = ent
        if not self.raises:
            yield res, st
            return
        for b, s2 in ex.branch(st, raises):
            if b:
                yield Raised(V.VExc(self.raises[0])), s2
            else:
                yield res, s2


def _opaque_value(ex, ctx, tag, shape):
    if shape == "URL":
        # a fresh URL object: five unconstrained parts, empty memo
        fields = {"_" + p: V.fresh_str(ctx, f"{tag}_{p}") for p in URL_PARTS}
        fields["_cache"] = V.VDict({}, fresh=True)
        return V.VObj("URL", fields, fresh=True)
    if shape == STR:
        return V.fresh_str(ctx, tag)
    if shape == INT:
        return VInt(smt.fresh_int(tag))
    if shape == BOOL:
        return VBool(smt.fresh_bool(tag))
    if isinstance(shape, tuple) and shape and shape[0] == "opt":
        return V.VOpt(smt.fresh_bool(tag + "_none"), _opaque_value(ex, ctx, tag, shape[1]))
    if isinstance(shape, (tuple, list)):
        return VTuple([_opaque_value(ex, ctx, f"{tag}{i}", sh) for i, sh in enumerate(shape)])
    raise Unsupported(f"opaque shape {shape!r}")


def _argkey(v):
    if isinstance(v, VStr):
        return ("s", v.conc) if v.conc is not None else ("v", v.a.get_id(), v.lo.get_id(), v.hi.get_id())
    if isinstance(v, VInt):
        return ("i", v.t.get_id())
    if isinstance(v, VBool):
        return ("b", v.t.get_id())
    if isinstance(v, VNone):
        return ("n",)
    if isinstance(v, V.VObj):
        return ("o", v.cls) + tuple((k, _argkey(x)) for k, x in sorted(v.fields.items()) if not k.startswith("_cache"))
    if isinstance(v, V.VOpt):
        return ("opt", v.isnone.get_id(), _argkey(v.val))
    if isinstance(v, (VTuple, VList)):
        return ("t",) + tuple(_argkey(x) for x in v.items)
    if isinstance(v, VConst):
        return ("c", id(v.obj))
    raise Unsupported("argument key")


def call_spec(ex, st, sp, args, kwargs, node=None):
    """run a specification function inline: inside it every exception class is a legitimate
    outcome (forked, not an obligation); yields (value | Raised, state).
    Specifications are pure: the outcome of a call already made on this path with the same
    argument terms is reused (per-path summary)."""
    try:
        key = ("call", sp.modsrc.modname, sp.qual) + tuple(_argkey(a) for a in args) + \
              tuple((k, _argkey(v)) for k, v in sorted(kwargs.items()))
    except Unsupported:
        key = None
    cm = getattr(st.ctx, "callmemo", None)
    if cm is None:
        cm = st.ctx.callmemo = {}
    if key is not None and key in cm:
        yield cm[key], st
        return
    depth = len(st.handled)
    st.handled.append((BaseException,))
    for v, s2 in ex.run_function(st, sp, list(args), dict(kwargs), node):
        del s2.handled[depth:]
        if key is not None:
            m2 = getattr(s2.ctx, "callmemo", None)
            if m2 is None:
                m2 = s2.ctx.callmemo = {}
            m2[key] = v
        yield v, s2


def make_param(ctx, name, ty):
    """all alternatives for a parameter of declared type -> list of (label, value)"""
    if isinstance(ty, tuple) and ty[0] == "opt":
        return [("None", NONE)] + make_param(ctx, name, ty[1])
    if isinstance(ty, tuple) and ty[0] == "union":
        out = []
        for t in ty[1:]:
            out.extend(make_param(ctx, name, t))
        return out
    if ty == STR:
        return [("str", ("str", name))]
    if ty == INT:
        return [("int", ("int", name))]
    if ty == BOOL:
        return [("bool", ("bool", name))]
    if ty == URLT:
        return [("URL", ("url", name))]
    if ty == BYTES:
        return [("bytes", ("bytes", name))]
    if isinstance(ty, tuple) and ty and ty[0] in ("pydata", "writer"):
        return [(ty[0], (ty[0], ty[1] if len(ty) > 1 else name))]
    if ty == "seglist":
        return [("segments", ("seglist", name))]
    if isinstance(ty, tuple) and ty and ty[0] == "varargs":
        out = [("()", ("vargs", []))]
        for lab, d in make_param(ctx, name + "0", ty[1]):
            out.append((f"({lab},)", ("vargs", [d])))
        out.append(("(str, str)", ("vargs", [("str", name + "a"), ("str", name + "b")])))
        return out
    if ty == "pairs":
        # a list of (key, value) pairs: none, one or two; values are strings or an int
        return [("[]", ("pairlist", [])),
                ("[(str, str)]", ("pairlist", [(("str", name + "k0"), ("str", name + "v0"))])),
                ("[(str, int)]", ("pairlist", [(("str", name + "k0"), ("int", name + "n0"))])),
                ("[(str, str), (str, str)]", ("pairlist", [(("str", name + "k0"), ("str", name + "v0")),
                                                           (("str", name + "k1"), ("str", name + "v1"))]))]
    if ty == "seqpairs":
        # mapping items: the value is a string or a list / tuple of two strings
        return [("[]", ("pairlist", [])),
                ("[(str, str)]", ("pairlist", [(("str", name + "k0"), ("str", name + "v0"))])),
                ("[(str, [str, str])]", ("pairlist", [(("str", name + "k0"), ("strlist", name + "v0"))])),
                ("[(str, (str, str))]", ("pairlist", [(("str", name + "k0"), ("strtuple2", name + "v0"))])),
                ("[(str, str), (str, int)]", ("pairlist", [(("str", name + "k0"), ("str", name + "v0")),
                                                           (("str", name + "k1"), ("int", name + "n1"))]))]
    if ty == "querydict":
        # a mapping argument with literal keys and values of any content
        return [("{}", ("dictarg", [])),
                ("{'a': str}", ("dictarg", [("a", ("str", name + "va"))])),
                ("{'a&b': str, 'c': int}", ("dictarg", [("a&b", ("str", name + "va")), ("c", ("int", name + "nc"))])),
                ("{'k': [str, str]}", ("dictarg", [("k", ("strlist", name + "vk"))]))]
    if ty == "strtuple":
        return [("()", ("vargs", [])), ("(str,)", ("vargs", [("str", name + "0")])),
                ("(str, str)", ("vargs", [("str", name + "a"), ("str", name + "b")]))]
    if ty == "pickle-state":
        return [("state=(parts,)", ("state", "tuple")), ("state=(None,{'_val':parts})", ("state", "dict"))]
    if ty == "fresh-url":
        return [("fresh URL", ("freshurl", name))]
    if isinstance(ty, tuple) and ty[0] == "const":
        return [(repr(c), ("const", c)) for c in ty[1]]
    raise ValueError(ty)


def instantiate_param(ex, ctx, desc):
    if desc is NONE:
        return NONE
    kind, name = desc
    if kind == "str":
        return V.sym_str(ctx, name)
    if kind == "bytes":
        return V.sym_str(ctx, name, kind="bytes")
    if kind == "int":
        return VInt(z3.Int(name))
    if kind == "bool":
        return VBool(z3.Bool(name))
    if kind == "const":
        return ex.wrap(name)
    if kind == "writer" and name == "symbolic":
        from . import cmodel
        blk = cmodel.new_block(ctx, z3.Int("w_blocksize"), name="wmem")
        blk.fields["static"] = VBool(z3.Bool("w_static"))
        chg = z3.Int("w_changed")
        ctx.add(z3.Or(chg == 0, chg == 1))
        return V.VObj("Writer", {"buf": blk, "size": VInt(z3.Int("w_size")), "pos": VInt(z3.Int("w_pos")),
                                 "changed": VInt(chg)}, fresh=True)     # *writer is in the function's frame
    if kind == "writer":
        return V.VObj("Writer", {"buf": VConst("BUFFER"), "size": VInt(8192), "pos": VInt(0), "changed": VInt(0)},
                      fresh=False)
    if kind == "pydata":
        return ("pydata-ref", name)
    if kind == "vargs":
        return VTuple([instantiate_param(ex, ctx, d) for d in name])
    if kind == "dictarg":
        return V.VDict({k: instantiate_param(ex, ctx, d) for k, d in name}, fresh=False)
    if kind == "pairlist":
        return VList([VTuple([instantiate_param(ex, ctx, k), instantiate_param(ex, ctx, v)]) for k, v in name], fresh=False)
    if kind == "strlist":
        return VList([V.sym_str(ctx, name + "a"), V.sym_str(ctx, name + "b")], fresh=False)
    if kind == "strtuple2":
        return VTuple([V.sym_str(ctx, name + "a"), V.sym_str(ctx, name + "b")])
    if kind == "seglist":
        return V.VSList(V.sym_str(ctx, name, kind="segs"), fresh=False)
    if kind == "state":
        parts = VTuple([V.sym_str(ctx, f"st_{p}") for p in URL_PARTS])
        if name == "tuple":
            return VTuple([parts])
        return VTuple([NONE, V.VDict({"_val": parts}, fresh=False)])
    if kind == "freshurl":
        fields = {"_" + p: lit("") for p in URL_PARTS}
        fields["_cache"] = V.VDict({}, fresh=True)
        return V.VObj("URL", fields, fresh=True)
    if kind == "url":
        fields = {"_" + p: V.sym_str(ctx, f"{name}_{p}") for p in URL_PARTS}
        obj = V.VObj("URL", fields, fresh=False)
        # the per-object memo of an existing URL: any known key may be present, with its lazy value
        obj.fields["_cache"] = V.VSymCache(obj)
        return obj
    raise ValueError(desc)


def to_spec_arg(v):
    """the specification sees a URL as the value of its five stored parts (contracts.spec_url.U)"""
    if isinstance(v, V.VObj) and v.cls == "URL":
        return V.VObj("U", {p: v.fields["_" + p] for p in URL_PARTS}, fresh=False)
    return v


def describe(v):
    if isinstance(v, VNone):
        return "None"
    if isinstance(v, VStr):
        return "str" if v.conc is None else repr(v.conc)
    if isinstance(v, VInt):
        return "int"
    if isinstance(v, VTuple):
        return "(" + ", ".join(describe(x) for x in v.items) + ")"
    return type(v).__name__


def shape_equal(ex, st, a, b):
    """equality goal between a code value and a spec value (None vs value -> False)"""
    return ex.equal(st, a, b)


class Lemma:
    """A statement over the executable specifications (and contract facts) only: `fn` returns a
    truth value that must hold for all arguments satisfying `requires`."""

    def __init__(self, fn, params, requires=None, props=(), note="", transparent=()):
        self.transparent = set(transparent)
        self.fn = fn
        self.qual = f"{fn.__module__}:{fn.__qualname__}"
        self.params = params
        self.requires = requires
        self.props = tuple(props)
        self.note = note
        self.spec = None
        self.cuts = []
        self.raises = ()
        self.opaque = False
        self.ensures = None


def verify_lemma(lemma, registry, combo_filter=None, timeout_ms=10000, rounds=3):
    t0 = time.time()
    res = {"function": lemma.qual, "obligations": [], "unsupported": [], "paths": 0, "pairs": 0,
           "inlined": [], "callee_contracts": [], "combos": 0, "solver_checks": 0, "solver_time_s": 0.0,
           "segments": 1, "merges": 0, "lemma": True}
    alts = [make_param(None, name, ty) for name, ty in lemma.params]
    for ci, combo in enumerate(itertools.product(*alts)):
        if combo_filter is not None and ci not in combo_filter:
            continue
        label = ",".join(f"{n}={l}" for (n, _), (l, _) in zip(lemma.params, combo))
        ex = Executor(registry, {})
        ex.verifying = lemma.qual
        ex.transparent = set(getattr(lemma, "transparent", ()) or ())
        st = St(ex)
        st.handled = [(BaseException,)]
        args = [to_spec_arg(instantiate_param(ex, st.ctx, d)) for _, d in combo]
        try:
            pre = [st]
            if lemma.requires is not None:
                def _pre(st0):
                    for v, s1 in call_spec(ex, st0, ex.wrap(lemma.requires), args, {}):
                        if isinstance(v, Raised):
                            continue
                        t = z3.simplify(ex.truth(s1, v))
                        if z3.is_false(t):
                            continue
                        s1.assume(t)
                        if s1.feasible():
                            yield s1
                pre = _pre(st)
            n = 0
            for s0 in pre:
                for v, s2 in call_spec(ex, s0, ex.wrap(lemma.fn), args, {}):
                    n += 1
                    res["paths"] += 1
                    g = z3.BoolVal(False) if isinstance(v, Raised) else ex.truth(s2, v)
                    ex.oblige(s2, f"lemma:{lemma.fn.__name__}[{label}|path{n}]", "lemma", g, None, {})
            if n:
                res["combos"] += 1
        except Unsupported as u:
            res["unsupported"].append(f"{label}: {u}")
        res["solver_checks"] += ex.sol.nchecks
        res["solver_time_s"] += ex.sol.time
        for ob in ex.obligations:
            if ob.result is None:
                try:
                    ob.result = smt.prove(ob.snapshot, ob.goal, timeout_ms=timeout_ms, rounds=rounds)
                except z3.Z3Exception as e:
                    ob.result = smt.Result("unknown", reason=str(e))
            rec = {"name": ob.name, "kind": ob.kind, "where": ob.where, "func": ob.func, "combo": label,
                   "status": ob.result.status, "backend": ob.result.backend, "time_s": round(ob.result.time_s, 4),
                   "ground": ob.result.n_ground, "info": ob.info}
            if ob.result.status == "sat":
                rec["validated"] = ob.result.validated
                rec["why"] = ob.result.reason
                rec["inputs"] = concretise(ob.result.model, lemma, combo)
            res["obligations"].append(rec)
    res["wall_s"] = round(time.time() - t0, 2)
    res["solver_time_s"] = round(res["solver_time_s"], 2)
    res["inc_open"] = smt.INC_OPEN[0]
    return res


def _memo_obligations(ex, st, obj, nm, skip=()):
    """C08-O2 / C09: every entry a function leaves in the per-object memo of a URL it returns
    must equal the value the corresponding lazy accessor computes from the stored parts."""
    cache = obj.fields.get("_cache")
    from contracts import spec_url
    u = to_spec_arg(obj)
    if any(u.fields.get(p) is None for p in URL_PARTS):
        return
    if isinstance(cache, V.VSymCache):
        # a memo inherited from another URL: every key it may hold must have the same lazy value
        # for the new parts as for the owner's parts
        if cache.owner is obj:
            entries = dict(cache.extra)
        else:
            entries = dict(cache.extra)
            ou = to_spec_arg(cache.owner)
            for k, fn in spec_url.MEMO_SPECS.items():
                if k in cache.removed or k in entries:
                    continue
                for ov, s1 in call_spec(ex, st, ex.wrap(fn), [ou], {}):
                    for nv, s2 in call_spec(ex, s1, ex.wrap(fn), [u], {}):
                        try:
                            g = z3.BoolVal(False) if isinstance(ov, Raised) != isinstance(nv, Raised) else \
                                (z3.BoolVal(True) if isinstance(ov, Raised) else ex.equal(s2, ov, nv))
                        except Unsupported:
                            g = z3.BoolVal(False)
                        ex.oblige(s2, f"memo:{k}:inherited-entry-still-valid[{nm}]", "memo", g, None, {"key": k})
        cache_items = entries
    elif isinstance(cache, V.VDict):
        cache_items = cache.d
    else:
        return
    for k, cv in list(cache_items.items()):
        if k in skip:
            continue
        fn = spec_url.MEMO_SPECS.get(k)
        if fn is None:
            ex.oblige(st, f"memo:{k}:no-lazy-definition[{nm}]", "memo", z3.BoolVal(False), None, {})
            continue
        for sv, s2 in call_spec(ex, st, ex.wrap(fn), [u], {}):
            if isinstance(sv, Raised):
                g = z3.BoolVal(False)
            else:
                try:
                    g = ex.equal(s2, cv, sv)
                except Unsupported:
                    g = z3.BoolVal(False)
            ex.oblige(s2, f"memo:{k}==lazy-value[{nm}]", "memo", g, None, {"key": k})


def _find_anchor(body, text):
    import ast as _ast
    norm = " ".join(text.split())
    for i, stmt in enumerate(body):
        if " ".join(_ast.unparse(stmt).split()).startswith(norm):
            return i
    return None


def _find_marker(body, name):
    import ast as _ast
    for i, stmt in enumerate(body):
        if (isinstance(stmt, _ast.Expr) and isinstance(stmt.value, _ast.Call)
                and getattr(stmt.value.func, "id", None) == "CUT"
                and stmt.value.args and getattr(stmt.value.args[0], "value", None) == name):
            return i
    return None


def _relation_names(exprs):
    import ast as _ast
    code, spec = set(), set()
    for src in exprs:
        tree = _ast.parse(src, mode="eval")
        for n in _ast.walk(tree):
            if isinstance(n, _ast.Attribute) and isinstance(n.value, _ast.Name) and n.value.id == "S":
                spec.add(n.attr)
        for n in _ast.walk(tree):
            if isinstance(n, _ast.Name) and n.id != "S":
                code.add(n.id)
    return code, spec


def _fresh_of(ex, ctx, name, ty):
    if ty == "str":
        return V.sym_str(ctx, name)
    if ty == "int":
        return VInt(z3.Int(name))
    if ty == "bool":
        return VBool(z3.Bool(name))
    if ty == "none":
        return NONE
    raise ValueError(ty)


def _eval_relation(ex, st, src, cenv, senv, spec_ms):
    """truth of a relation expression in the combined frame"""
    env = dict(cenv)
    g = dict(cenv.get("__globals__", {}))
    if spec_ms is not None:
        g.update(spec_ms.mod.__dict__)
    env["__globals__"] = g
    env["S"] = V.VObj("spec-frame", {k: v for k, v in senv.items() if not k.startswith("__")}, fresh=False)
    saved = st.env
    st.env = env
    try:
        v, _ = ex.eval1(compile_expr(src), st)
    finally:
        st.env = saved
    return ex.truth(st, v)


def verify_contract(contract, registry, combo_filter=None, timeout_ms=10000, rounds=3, seg_filter=None, shard=None):
    """Generate and discharge every obligation of one function. Returns a result dict."""
    smt.SLOW[0] = 2 if timeout_ms <= 10000 else 12      # inconclusive standalone queries a task may spend (quick / thorough)
    smt.FALLBACK_LEFT[0] = 2 if timeout_ms <= 10000 else 6   # counter-model searches a task may spend
    smt.HARD_HITS = 0
    smt.INC_OPEN[0] = 0
    if isinstance(contract, Lemma):
        return verify_lemma(contract, registry, combo_filter, timeout_ms, rounds)
    t0 = time.time()
    modname, qual = contract.qual.split(":")
    ms = ModuleSrc.get(modname)
    node = ms.funcs.get(qual)
    res = {"function": contract.qual, "obligations": [], "unsupported": [], "paths": 0, "pairs": 0,
           "inlined": [], "callee_contracts": [], "combos": 0, "solver_checks": 0, "solver_time_s": 0.0,
           "segments": len(contract.cuts) + 1, "merges": 0}
    if node is None:
        res["unsupported"].append(f"function {contract.qual} not found in source")
        return res
    spec_ms = ModuleSrc.get(contract.spec.__module__) if contract.spec else (
        ModuleSrc.get(contract.spec_module.__name__) if contract.spec_module else None)
    spec_node = spec_ms.funcs.get(contract.spec.__qualname__) if contract.spec else None
    cuts = contract.cuts
    code_idx = [0] + [_find_anchor(node.body, c.anchor) for c in cuts] + [len(node.body)]
    spec_idx = [0] + [_find_marker(spec_node.body, c.name) for c in cuts] + [len(spec_node.body) if spec_node else 0]
    if any(i is None for i in code_idx + spec_idx) or code_idx != sorted(code_idx) or spec_idx != sorted(spec_idx):
        res["unsupported"].append(f"cut anchors/markers not found or out of order: code {code_idx} spec {spec_idx}")
        return res
    alts = [make_param(None, name, ty) for name, ty in contract.params]
    combos = list(itertools.product(*alts))
    nseg = len(cuts) + 1
    for ci, combo in enumerate(combos):
        if combo_filter is not None and ci not in combo_filter:
            continue
        label0 = ",".join(f"{n}={l}" for (n, _), (l, _) in zip(contract.params, combo))
        for seg in range(nseg):
            if seg_filter is not None and seg not in seg_filter:
                continue
            label = label0 if nseg == 1 else f"{label0}|seg{seg}"
            loop_specs = {(contract.qual, k): LoopSpec(src, spec_ms) for k, src in contract.loops.items()}
            ex = Executor(registry, loop_specs)
            ex.split_model = contract.split_model
            if contract.split_model == "plist":
                ex.assumed_contracts.add("str.split / str.join on one-character separators: element count, first/last element, "
                                         "join(split(s)) == s, join(split(s)[:-1]) + sep == s[:rfind+1], no element contains the "
                                         "separator (pyvc/plist.py)")
            ex.verifying = contract.qual
            ex.transparent = contract.transparent
            st = St(ex)
            st.handled = [tuple(contract.raises)]
            args = [instantiate_param(ex, st.ctx, d) for _, d in combo]
            for i, a in enumerate(args):
                if isinstance(a, tuple) and a and a[0] == "pydata-ref":
                    ref = [j for j, (n, _) in enumerate(contract.params) if n == a[1]][0]
                    args[i] = V.VObj("PyData", {"str": args[ref]}, fresh=False)
            if modname.endswith("_pyx"):
                from . import cmodel
                cmodel.install(ex, ms.mod)
            fn = UserFn(ms, node, qual)
            sp = UserFn(spec_ms, spec_node, contract.spec.__qualname__) if contract.spec else None
            sargs = [to_spec_arg(x) for x in args]
            try:
                pre_states = [st]
                if contract.requires is not None:
                    # the precondition may itself be a partial, branching specification
                    # (e.g. "the authority splits without error"): every way of satisfying it
                    # is explored; ways of violating it (False / raise) are outside the contract
                    import inspect as _inspect
                    nreq = len(_inspect.signature(contract.requires).parameters)

                    def _pre(st0):
                        for v, s1 in call_spec(ex, st0, ex.wrap(contract.requires), sargs[:nreq], {}):
                            if isinstance(v, Raised):
                                continue
                            t = z3.simplify(ex.truth(s1, v))
                            if z3.is_false(t):
                                continue
                            s1.assume(t)
                            if s1.feasible():
                                yield s1
                    pre_states = _pre(st)
            except Unsupported as u:
                res["unsupported"].append(f"{label}: {u}")
                continue
            pi = 0
            broke = False
            for st in pre_states:
              try:
                  npre = contract.native_pre(ex, st, args) if contract.native_pre is not None else None
                  code_env = ex.bind_params(fn, args, [n for n, _ in contract.params])
                  spec_env = ex.bind_params(sp, sargs) if sp else {}
                  code_env["__globals__"] = ms.mod.__dict__
                  if seg > 0:
                      cut = cuts[seg - 1]
                      cnames, snames = _relation_names(cut.relation)
                      cnames -= set(dir(__import__("builtins"))) | set(spec_ms.mod.__dict__) | set(ms.mod.__dict__)
                      for nm in sorted(cnames):
                          if nm not in code_env:
                              code_env[nm] = _fresh_of(ex, st.ctx, f"c_{nm}", cut.types.get(nm, "str"))
                      for nm in sorted(snames):
                          if nm not in spec_env:
                              spec_env[nm] = _fresh_of(ex, st.ctx, f"s_{nm}", cut.types.get("S." + nm, "str"))
                      import ast as _ast
                      for src in cut.relation:
                          t = _ast.parse(src, mode="eval").body
                          if (isinstance(t, _ast.Compare) and len(t.ops) == 1 and isinstance(t.ops[0], _ast.Eq)
                                  and isinstance(t.left, _ast.Name) and isinstance(t.comparators[0], _ast.Attribute)
                                  and getattr(t.comparators[0].value, "id", None) == "S"
                                  and cut.types.get(t.left.id, "str") == cut.types.get("S." + t.comparators[0].attr, "str")):
                              spec_env[t.comparators[0].attr] = code_env[t.left.id]     # same symbol on both sides
                              continue
                          st.assume(_eval_relation(ex, st, src, code_env, spec_env, spec_ms))
                  if not st.feasible():
                      if seg > 0:
                          res["unsupported"].append(f"vacuous: cut relation of {label} is contradictory")
                      continue
                  for flow, val, s2 in ex.run_range(st, fn, dict(code_env), code_idx[seg], code_idx[seg + 1]):
                      pi += 1
                      if shard is not None and pi % shard[1] != shard[0]:
                          continue          # another task of the pool handles this path
                      res["paths"] += 1
                      if res["paths"] > ex.max_paths:
                          raise Unsupported("path budget exceeded")
                      if contract.native_post is not None:
                          contract.native_post(ex, s2, npre, "return" if flow == "next" else flow,
                                               val if (flow == "return" and val is not None) else NONE, args)
                      if contract.post is not None and flow in ("return", "next"):
                          env = dict(s2.env)
                          g = dict(env.get("__globals__", {}))
                          if spec_ms is not None:
                              g.update(spec_ms.mod.__dict__)
                          env["__globals__"] = g
                          for gk, gv in s2.ghost.items():
                              env["G_" + gk] = gv
                          env["result"] = val if (flow == "return" and val is not None) else NONE
                          keep = s2.env
                          s2.env = env
                          try:
                              pv, _ = ex.eval1(compile_expr(contract.post), s2)
                          finally:
                              s2.env = keep
                          ex.oblige(s2, f"post:{contract.post}[{label}|path{pi}]", "post", ex.truth(s2, pv), None, {})
                      if sp is None:
                          continue
                      cenv = dict(s2.env)
                      at_cut = flow == "next" and seg < nseg - 1
                      if flow == "next" and not at_cut:
                          flow, val = "return", NONE
                      depth = len(s2.handled)
                      s2.handled.append((BaseException,))
                      s_end = spec_idx[seg + 1] if at_cut else len(spec_node.body)
                      s_start = spec_idx[seg] + (1 if seg > 0 else 0)
                      senv0 = {k: v for k, v in spec_env.items()}
                      for sflow, sval, s3 in ex.run_range(s2, sp, senv0, s_start, s_end):
                          del s3.handled[depth:]
                          res["pairs"] += 1
                          nm = f"{label}|path{pi}"
                          if at_cut:
                              if sflow != "next":
                                  ex.oblige(s3, f"cut:{cuts[seg].name}:spec-ends-({sflow})-where-code-continues[{nm}]",
                                            "raises", z3.BoolVal(False), None, {})
                                  continue
                              senv = dict(s3.env)
                              for src in cuts[seg].relation:
                                  g = _eval_relation(ex, s3, src, cenv, senv, spec_ms)
                                  ex.oblige(s3, f"cut:{cuts[seg].name}:{src}[{nm}]", "cut", g, None, {})
                              continue
                          if sflow == "next":
                              sflow, sval = "return", NONE
                          craise, sraise = flow == "raise", sflow == "raise"
                          if not craise and not sraise:
                              try:
                                  g = ex.equal(s3, val, sval)
                              except Unsupported:
                                  g = z3.BoolVal(False)
                              ex.oblige(s3, f"post:result==spec[{nm}]", "post", g, None,
                                        {"code": describe(val), "spec": describe(sval)})
                              for ai, aobj in enumerate(cenv.get(n) for n, _ in contract.params):
                                  # entries the function left in the memo of an argument URL
                                  if isinstance(aobj, V.VObj) and aobj.cls == "URL" and aobj is not val and \
                                          isinstance(aobj.fields.get("_cache"), V.VSymCache) and aobj.fields["_cache"].extra:
                                      _memo_obligations(ex, s3, aobj, nm + f"|arg{ai}")
                              if isinstance(val, V.VObj) and val.cls == "URL":
                                  saved_tr = ex.transparent
                                  ex.transparent = set(saved_tr) | contract.memo_transparent
                                  try:
                                      _memo_obligations(ex, s3, val, nm, contract.memo_skip)
                                  finally:
                                      ex.transparent = saved_tr
                              if contract.ensures is not None:
                                  for ev, s4 in call_spec(ex, s3, ex.wrap(contract.ensures), sargs + [sval], {}):
                                      if isinstance(ev, VTuple):
                                          # a tuple of clauses: one named obligation per clause
                                          for ci, cv in enumerate(flatten_clauses(ev)):
                                              ex.oblige(s4, f"ensures:clause{ci}[{nm}]", "ensures", ex.truth(s4, cv), None, {"code": describe(val)})
                                          continue
                                      eg = z3.BoolVal(False) if isinstance(ev, Raised) else ex.truth(s4, ev)
                                      ex.oblige(s4, f"ensures:spec-result[{nm}]", "ensures", eg, None, {})
                          elif craise and sraise:
                              ok = issubclass(val.cls, sval.cls)
                              ex.oblige(s3, f"raises:same-class[{nm}]", "raises", z3.BoolVal(ok), None,
                                        {"code": val.cls.__name__, "spec": sval.cls.__name__})
                          elif craise:
                              ex.oblige(s3, f"raises:code-raises-{val.cls.__name__}-where-spec-returns[{nm}]", "raises",
                                        z3.BoolVal(False), None, {"code": val.cls.__name__, "spec": describe(sval)})
                          else:
                              ex.oblige(s3, f"raises:spec-raises-{sval.cls.__name__}-where-code-returns[{nm}]", "raises",
                                        z3.BoolVal(False), None, {"code": describe(val), "spec": sval.cls.__name__})
                  res["inlined"] = sorted(set(res["inlined"]) | ex.inlined)
                  res["callee_contracts"] = sorted(set(res["callee_contracts"]) | ex.called_contracts)
              except Unsupported as u:
                  res["unsupported"].append(f"{label}: {u}")
                  broke = True
                  break
            if pi == 0 and not broke and (shard is None or shard[0] == 0):
                # no path at all: either the argument kinds are excluded by the precondition
                # (fine for one combination) or the contract is vacuous (caught by the caller,
                # which requires at least one explored path per function)
                res.setdefault("empty_combos", []).append(label)
            elif seg == 0:
                res["combos"] += 1
            res["solver_checks"] += ex.sol.nchecks
            res["solver_time_s"] += ex.sol.time
            res["merges"] += getattr(ex, "nmerges", 0)
            res["assumed_contracts"] = sorted(set(res.get("assumed_contracts", [])) | ex.assumed_contracts)
            # obligations left open by the incremental solver: standalone prover
            # open obligations that can yield a replayable input (result / exception / emission / safety)
            # get the task's budget first
            prio = {"post": 0, "raises": 0, "emit": 0, "safety": 1, "pre": 1, "requires": 1, "inv-step": 2, "inv-entry": 2, "inv-exit": 2}
            for ob in sorted((o for o in ex.obligations if o.result is None), key=lambda o: prio.get(o.kind, 3)):
                if os.environ.get("PYVC_TRACE"):
                    print("FALLBACK", ob.name, ob.where, str(ob.info)[:600], flush=True)
                try:
                    ob.result = smt.prove(ob.snapshot, ob.goal, timeout_ms=timeout_ms, rounds=rounds)
                except z3.Z3Exception as e:
                    ob.result = smt.Result("unknown", reason=str(e))
            for ob in ex.obligations:
                if ob.result is None:
                    if os.environ.get("PYVC_TRACE"):
                        print("FALLBACK", ob.name, ob.where, str(ob.info)[:600], flush=True)
                    try:
                        ob.result = smt.prove(ob.snapshot, ob.goal, timeout_ms=timeout_ms, rounds=rounds)
                    except z3.Z3Exception as e:
                        ob.result = smt.Result("unknown", reason=str(e))
                rec = {"name": ob.name, "kind": ob.kind, "where": ob.where, "func": ob.func, "combo": label,
                       "status": ob.result.status, "backend": ob.result.backend, "time_s": round(ob.result.time_s, 4),
                       "ground": ob.result.n_ground, "info": ob.info}
                if ob.result.status == "sat":
                    rec["validated"] = ob.result.validated
                    rec["why"] = ob.result.reason
                    rec["inputs"] = concretise(ob.result.model, contract, combo)
                res["obligations"].append(rec)
    res["wall_s"] = round(time.time() - t0, 2)
    res["solver_time_s"] = round(res["solver_time_s"], 2)
    res["inc_open"] = smt.INC_OPEN[0]
    return res


def flatten_clauses(v):
    """clauses of an `ensures` written as a (nested) tuple of booleans"""
    if isinstance(v, VTuple):
        out = []
        for x in v.items:
            out.extend(flatten_clauses(x))
        return out
    return [v]


def concretise(model, contract, combo):
    """model -> python values of the parameters"""
    out = {}
    for (name, ty), (label, desc) in zip(contract.params, combo):
        if desc is NONE:
            out[name] = None
            continue
        kind, nm = desc
        if kind == "seglist":
            a = z3.Function(nm, z3.IntSort(), z3.IntSort())
            n = max(0, min(model.eval(z3.Int(nm + "_len"), model_completion=True).as_long(), 30))
            inv = {v: k for k, v in V.SEG_IDS.items()}
            out[name] = [inv.get(model.eval(a(i), model_completion=True).as_long(), "seg%d" % i) for i in range(n)]
            continue
        if kind in ("str", "bytes"):
            a = z3.Function(nm, z3.IntSort(), z3.IntSort())
            n = model.eval(z3.Int(nm + "_len"), model_completion=True).as_long()
            n = max(0, min(n, 200))
            chars = []
            for i in range(n):
                c = model.eval(a(i), model_completion=True).as_long()
                if not (0 <= c <= 0x10FFFF):
                    c = 0x61
                chars.append(chr(c))
            out[name] = "".join(chars) if kind == "str" else bytes(ord(c) & 255 for c in chars)
        elif kind == "int":
            out[name] = model.eval(z3.Int(nm), model_completion=True).as_long()
        elif kind == "bool":
            out[name] = z3.is_true(model.eval(z3.Bool(nm), model_completion=True))
        elif kind == "const":
            out[name] = nm
        elif kind == "url":
            d = {}
            for p in URL_PARTS:
                a = z3.Function(f"{nm}_{p}", z3.IntSort(), z3.IntSort())
                n = model.eval(z3.Int(f"{nm}_{p}_len"), model_completion=True).as_long()
                n = max(0, min(n, 200))
                cs = []
                for i in range(n):
                    c = model.eval(a(i), model_completion=True).as_long()
                    cs.append(chr(c) if 0 <= c <= 0x10FFFF else "a")
                d[p] = "".join(cs)
            out[name] = {"__url__": d}
    return out
