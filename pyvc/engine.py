"""pyvc symbolic executor: walks the AST of the *real* functions of /repo (re-read on every
run) and of the executable specifications in /verif/contracts, over the value model of
values.py.  Paths fork at undecided branches (pruned by a cheap ground feasibility test);
proof obligations are collected with a snapshot of the path context and discharged later.
"""
from __future__ import annotations

import ast
import builtins
import importlib
import inspect
import os
import sys
import types

import z3

from . import smt
from .smt import Ctx, fresh_int, fresh_bool, fresh_arr, iv, is_conc_int
from . import values as V
from .plist import VPList, Chunks
from . import plist as PL
from .values import (NONE, VBool, VConst, VDict, VExc, VInt, VList, VNone, VObj, VOpt, VSeg, VSList, VStr, VStream, VSymCache, VTuple,
                     Unsupported, lit)

REPO = os.environ.get("PYVC_REPO", "/repo")


class Obligation:
    def __init__(self, name, kind, snapshot, goal, where, func, info=None):
        self.name = name
        self.kind = kind          # 'safety' | 'post' | 'raises' | 'inv-entry' | 'inv-step' | 'requires' | 'frame' | 'cover'
        self.snapshot = snapshot
        self.goal = goal
        self.where = where
        self.func = func
        self.info = info or {}
        self.result = None


class St:
    """state of one symbolic path"""

    def __init__(self, ex):
        self.ex = ex
        self.env = {}
        self.ctx = Ctx(ex.sol)
        self.pc = []
        self.guards = []
        self.handled = []      # stack of tuples of exception classes catchable by enclosing handlers
        self.trace = []
        self.ghost = {}
        self.remap = {}        # id(object of an ancestor state) -> (that object, its copy in this state)

    def fork(self):
        s = St(self.ex)
        memo = {}
        s.env = _clone_env(self.env, memo)
        s.ctx = self.ctx.copy()
        for attr in ("memo", "dec_apps", "opaque", "fn_apps", "lt_apps", "lt_strs", "hash_apps"):
            if hasattr(self.ctx, attr):
                val = getattr(self.ctx, attr)
                setattr(s.ctx, attr, dict(val) if isinstance(val, dict) else list(val))
        if hasattr(self.ctx, "views"):
            s.ctx.views = {k: list(v) for k, v in self.ctx.views.items()}
        if hasattr(self.ctx, "callmemo"):
            s.ctx.callmemo = dict(self.ctx.callmemo)
        s.pc = list(self.pc)
        s.guards = list(self.guards)
        s.handled = list(self.handled)
        s.trace = list(self.trace)
        s.ghost = {k: _clone(v, memo) for k, v in self.ghost.items()}
        if hasattr(self, "pending_exc"):
            s.pending_exc = self.pending_exc
        s.remap = dict(self.remap)
        for k, (old, new) in memo.items():
            s.remap[k] = (old, new)
        return s

    def tr(self, v, depth=0):
        """the copy, in this state, of a heap object that was obtained in an ancestor state
        (values computed before a fork must be re-targeted to the fork's own heap)"""
        if isinstance(v, (VObj, VDict, VList, VSymCache, VSList, VPList)):
            seen = 0
            while id(v) in self.remap and seen < 64:
                v = self.remap[id(v)][1]
                seen += 1
            return v
        if isinstance(v, BoundMethod):
            r = self.tr(v.recv)
            return v if r is v.recv else BoundMethod(r, v.name)
        if isinstance(v, UserFn) and v.self_obj is not None:
            r = self.tr(v.self_obj)
            return v if r is v.self_obj else UserFn(v.modsrc, v.node, v.qual, self_obj=r)
        if isinstance(v, VTuple) and depth < 3 and self.remap:
            items = [self.tr(x, depth + 1) for x in v.items]
            if any(a is not b for a, b in zip(items, v.items)):
                return VTuple(items)
        return v

    def assume(self, c):
        self.ctx.assume(c)
        self.pc.append(c)
        memo = getattr(self.ctx, "memo", None)
        if memo is None:
            memo = self.ctx.memo = {}
        self._record_decided(memo, z3.simplify(c), True)

    def _record_decided(self, memo, c, val):
        if z3.is_not(c):
            self._record_decided(memo, c.arg(0), not val)
            return
        memo[("decided", c.get_id())] = val
        if (val and z3.is_and(c)) or (not val and z3.is_or(c)):
            for ch in c.children():
                self._record_decided(memo, ch, val)

    def feasible(self):
        return self.ex.sol.check() != z3.unsat

    def guard_cond(self):
        return z3.And(self.guards) if self.guards else z3.BoolVal(True)


def _clone_env(env, memo):
    out = {}
    for k, v in env.items():
        if k == "__caller_env__":
            out[k] = _clone_env(v, memo)
        elif k == "__globals__":
            out[k] = v
        else:
            out[k] = _clone(v, memo)
    return out


def _clone(v, memo):
    """deep copy of mutable heap values, sharing immutable ones"""
    if isinstance(v, (VList, VDict, VObj)):
        if id(v) in memo:
            return memo[id(v)][1]
        if isinstance(v, VList):
            n = VList([], v.fresh)
            if getattr(v, "bytes", False):
                n.bytes = True
            memo[id(v)] = (v, n)
            n.items = [_clone(x, memo) for x in v.items]
        elif isinstance(v, VDict):
            n = VDict({}, v.fresh)
            memo[id(v)] = (v, n)
            n.d = {k: _clone(x, memo) for k, x in v.d.items()}
        else:
            n = VObj(v.cls, {}, v.fresh)
            memo[id(v)] = (v, n)
            n.fields = {k: _clone(x, memo) for k, x in v.fields.items()}
        return n
    if isinstance(v, VTuple):
        return VTuple([_clone(x, memo) for x in v.items])
    if isinstance(v, VSList):
        if id(v) in memo:
            return memo[id(v)][1]
        n = VSList(v.view, v.fresh)
        memo[id(v)] = (v, n)
        return n
    if isinstance(v, VPList):
        if id(v) in memo:
            return memo[id(v)][1]
        n = VPList(v.chunks, v.sep, v.fresh, v.rev)
        memo[id(v)] = (v, n)
        return n
    if isinstance(v, VSymCache):
        if id(v) in memo:
            return memo[id(v)][1]
        n = VSymCache(None, v.removed, {})
        memo[id(v)] = (v, n)
        n.owner = _clone(v.owner, memo)
        n.extra = {k: _clone(x, memo) for k, x in v.extra.items()}
        return n
    return v


class ModuleSrc:
    """AST + natively imported module object for a repo / contracts module"""

    _cache = {}

    def __init__(self, modname, path):
        self.modname = modname
        self.path = path
        self.src = open(path).read()
        self.tree = ast.parse(self.src, path)
        self.funcs = {}
        for node in self.tree.body:
            if isinstance(node, ast.FunctionDef):
                self.funcs[node.name] = node
            elif isinstance(node, ast.ClassDef):
                for sub in node.body:
                    if isinstance(sub, ast.FunctionDef):
                        if any(getattr(d, "id", None) == "overload" for d in sub.decorator_list):
                            continue          # typing stubs: dropped (DESIGN 3.1)
                        self.funcs[f"{node.name}.{sub.name}"] = sub
        self.mod = importlib.import_module(modname)

    @classmethod
    def get(cls, modname):
        if modname not in cls._cache:
            mod = importlib.import_module(modname)
            cls._cache[modname] = ModuleSrc(modname, inspect.getsourcefile(mod))
        return cls._cache[modname]


class UserFn(V.V):
    """a Python function whose body is executed symbolically (repo function or spec)"""

    def __init__(self, modsrc, node, qual, self_obj=None):
        self.modsrc = modsrc
        self.node = node
        self.qual = qual
        self.self_obj = self_obj

    def __repr__(self):
        return f"UserFn({self.modsrc.modname}:{self.qual})"


class Prim(V.V):
    """engine-implemented callable (library contract or spec primitive)"""

    def __init__(self, name, fn):
        self.name = name
        self.fn = fn

    def __repr__(self):
        return f"Prim({self.name})"


class BoundMethod(V.V):
    def __init__(self, recv, name):
        self.recv = recv
        self.name = name


class Unmergeable(Exception):
    pass


class Raised(V.V):
    """result of an expression whose evaluation raised: propagated as a value so that the
    remaining alternatives of every enclosing generator are still explored"""

    def __init__(self, exc):
        self.exc = exc

    def __repr__(self):
        return f"Raised({self.exc})"


class Executor:
    def __init__(self, contracts=None, loop_specs=None, max_paths=20000):
        self.contracts = contracts or {}     # qualified name -> Contract
        self.obligations = []
        self.unsupported = []
        self.cur_func = "?"
        self.npaths = 0
        self.max_paths = max_paths
        self.ob_timeout_ms = 1500
        self.merging = True
        self.merge_q = 0
        self.feas_timeout_ms = 300
        self.loop_specs = loop_specs or {}   # (func qual, ordinal) -> LoopSpec
        self.loop_counter = {}
        self.inlined = set()
        self.called_contracts = set()
        self.native_by_id = {}
        self.sol = smt.IncSolver(V.GLOBAL_FACTS)
        self.deferred = 0
        self.transparent = set()
        self.lemmas_used = set()
        from . import lib
        lib.install(self)

    # ------------------------------------------------------------ obligations
    def oblige(self, st, name, kind, goal, node=None, info=None):
        """Record a proof obligation and try to discharge it at once in the incremental solver
        (check with the negated goal as assumption).  If that is inconclusive the path context
        is snapshotted for the standalone prover (own instantiation, counter-model)."""
        g = z3.simplify(z3.Implies(st.guard_cond(), goal)) if st.guards else z3.simplify(goal)
        where = self.where(node)
        ob = Obligation(name, kind, None, g, where, self.cur_func, info)
        self.obligations.append(ob)
        if z3.is_true(g):
            ob.result = smt.Result("unsat", None, 0, 0.0, backend="simplify")
            return
        t = self.sol.time
        r = self.sol.check(z3.Not(g), timeout_ms=self.ob_timeout_ms if smt.INC_OPEN[0] < smt.INC_OPEN_MAX else 500)
        if r == z3.unsat:
            ob.result = smt.Result("unsat", None, len(st.ctx.facts) + len(st.ctx.qfacts), self.sol.time - t,
                                   backend="z3-ematch-inc")
            return
        facts, q, b = st.ctx.snapshot()
        ob.snapshot = (facts + list(V.GLOBAL_FACTS), q, b)
        self.deferred += 1

    def unreachable_or_undecided(self, st, what, node=None):
        """a construct outside the model was reached: if the path is provably infeasible nothing
        happens; otherwise the contract is undecided (never a violation)"""
        self.oblige(st, f"reach:{what}", "reach", z3.BoolVal(False), node, {"note": "path must be infeasible"})

    def activate(self, st):
        """context manager: make `st` the active path of the incremental solver (its fact
        lists must extend what is asserted at the current level)"""
        ex = self

        class _Scope:
            def __enter__(self_):
                nf, nq, nb = ex.sol.counts[-1]
                ex.sol.push()
                for f in st.ctx.facts[nf:]:
                    ex.sol.add_fact(f)
                for q in st.ctx.qfacts[nq:]:
                    ex.sol.add_q(q)
                for b in st.ctx.bounds[nb:]:
                    ex.sol.add_bound(b)

            def __exit__(self_, *a):
                ex.sol.pop()
                return False
        return _Scope()

    def where(self, node):
        if node is None:
            return self.cur_func
        return f"{self.cur_file}:{getattr(node, 'lineno', '?')}"

    # ------------------------------------------------------------ helpers
    def wrap(self, obj):
        """native Python object -> value"""
        if obj is None:
            return NONE
        if isinstance(obj, list) and id(obj) in self.native_by_id:
            return self.native_by_id[id(obj)]
        if isinstance(obj, bool):
            return VBool(obj)
        if isinstance(obj, int):
            return VInt(obj)
        if isinstance(obj, str):
            return lit(obj)
        if isinstance(obj, bytes):
            return lit(obj, "bytes")
        if isinstance(obj, tuple):
            return VTuple([self.wrap(x) for x in obj])
        if isinstance(obj, list):
            return VList([self.wrap(x) for x in obj], fresh=False)
        if isinstance(obj, V.V):
            return obj
        p = self.native_by_id.get(id(obj))
        if p is not None:
            return p
        w = getattr(obj, "__wrapped__", None)
        if w is not None and isinstance(w, types.FunctionType):
            return self.wrap(w)
        if isinstance(obj, types.FunctionType):
            modname = obj.__module__
            if modname.startswith(("yarl", "contracts")):
                ms = ModuleSrc.get(modname)
                node = ms.funcs.get(obj.__qualname__)
                if node is not None:
                    return UserFn(ms, node, obj.__qualname__)
        return VConst(obj)

    def truth(self, st, v):
        """z3 Bool for Python truthiness of v"""
        if isinstance(v, VBool):
            return v.t
        if isinstance(v, VInt):
            return v.t != 0
        if isinstance(v, VNone):
            return z3.BoolVal(False)
        if isinstance(v, VOpt):
            return z3.And(z3.Not(v.isnone), self.truth(st, v.val))
        if isinstance(v, VStr):
            if v.conc is not None:
                return z3.BoolVal(len(v.conc) > 0)
            return v.hi > v.lo
        if isinstance(v, (VTuple, VList)):
            return z3.BoolVal(len(v.items) > 0)
        if isinstance(v, VSList):
            return v.view.len() > 0
        if isinstance(v, VPList):
            return PL.truth(v, st.ctx)
        if isinstance(v, VSeg):
            return v.t != 0            # only the empty segment is falsy
        if isinstance(v, VDict):
            return z3.BoolVal(len(v.d) > 0)
        if isinstance(v, VConst):
            return z3.BoolVal(bool(v.obj))
        if isinstance(v, (VObj, UserFn, Prim)):
            return z3.BoolVal(True)
        raise Unsupported(f"truthiness of {v!r}")

    def branch(self, st, cond):
        """Fork on an undecided condition.  Feasibility of each side is decided by the
        incremental solver (facts + E-matched quantified facts); a side is explored inside its
        own push/pop scope only when both sides are possible."""
        c = z3.simplify(cond)
        if z3.is_true(c):
            yield True, st
            return
        if z3.is_false(c):
            yield False, st
            return
        f1, f2 = self.split2(st, c)
        if f1 and not f2:
            st.assume(c)
            yield True, st
            return
        if f2 and not f1:
            st.assume(z3.Not(c))
            yield False, st
            return
        if not f1 and not f2:
            return
        other = st.fork()
        self.sol.push()
        try:
            st.assume(c)
            yield True, st
        finally:
            self.sol.pop()
        self.sol.push()
        try:
            other.assume(z3.Not(c))
            yield False, other
        finally:
            self.sol.pop()

    def raise_or_oblige(self, st, exc_cls, ok_cond, name, node):
        """A partial operation: ok_cond must hold or exc_cls is raised.  If an enclosing handler
        or the function's contract allows exc_cls, fork; otherwise emit a safety obligation and
        continue on the ok path only.  Yields ('ok'|'raise', st)."""
        c = z3.simplify(ok_cond)
        if z3.is_true(c):
            yield "ok", st
            return
        if self.catchable(st, exc_cls) and not st.guards:
            for b, s2 in self.branch(st, c):
                yield ("ok" if b else "raise"), s2
            return
        self.oblige(st, name, "safety", c, node, info={"exception": exc_cls.__name__})
        if not st.guards:
            st.ctx.assume(c)
        yield "ok", st

    def catchable(self, st, exc_cls):
        for classes in st.handled:
            if any(issubclass(exc_cls, c) for c in classes):
                return True
        return False


    # ------------------------------------------------------------ state merging
    def merge_value(self, c, a, b, ctx):
        """value that equals a when c holds and b otherwise (heap objects keep their
        identity: the same pair of objects always merges into the same object)"""
        if a is b:
            return a
        if isinstance(a, (VObj, VDict, VList, VSymCache)):
            hm = getattr(ctx, "heap_merge", None)
            if hm is None:
                hm = ctx.heap_merge = {}
            k = (id(a), id(b))
            if k in hm:
                return hm[k][0]
            # allocate the merged object first (object graphs are cyclic: URL <-> its memo)
            if type(a) is not type(b):
                raise Unmergeable()
            if isinstance(a, VObj):
                if a.cls != b.cls or a.fields.keys() != b.fields.keys():
                    raise Unmergeable()
                r = VObj(a.cls, {}, a.fresh and b.fresh)
                hm[k] = (r, a, b)
                r.fields = {f: self.merge_value(c, a.fields[f], b.fields[f], ctx) for f in a.fields}
            elif isinstance(a, VDict):
                if a.d.keys() != b.d.keys() or a.fresh != b.fresh:
                    raise Unmergeable()
                r = VDict({}, a.fresh)
                hm[k] = (r, a, b)
                r.d = {f: self.merge_value(c, a.d[f], b.d[f], ctx) for f in a.d}
            elif isinstance(a, VList):
                if len(a.items) != len(b.items) or a.fresh != b.fresh:
                    raise Unmergeable()
                r = VList([], a.fresh)
                if getattr(a, "bytes", False):
                    r.bytes = True
                hm[k] = (r, a, b)
                r.items = [self.merge_value(c, x, y, ctx) for x, y in zip(a.items, b.items)]
            else:
                if a.removed != b.removed or a.extra.keys() != b.extra.keys():
                    raise Unmergeable()
                r = VSymCache(None, a.removed, {})
                hm[k] = (r, a, b)
                r.owner = self.merge_value(c, a.owner, b.owner, ctx)
                r.extra = {f: self.merge_value(c, a.extra[f], b.extra[f], ctx) for f in a.extra}
            return r
        return self._merge_value(c, a, b, ctx)

    def _merge_value(self, c, a, b, ctx):
        if isinstance(a, VInt) and isinstance(b, VInt):
            if a.t.get_id() == b.t.get_id():
                return a
            return VInt(V.name_term(ctx, z3.If(c, a.t, b.t), "m"))
        if isinstance(a, VBool) and isinstance(b, VBool):
            if a.t.get_id() == b.t.get_id():
                return a
            return VBool(z3.If(c, a.t, b.t))
        if isinstance(a, VNone) and isinstance(b, VNone):
            return NONE
        if isinstance(a, VStr) and isinstance(b, VStr) and a.kind == b.kind:
            if a.conc is not None and b.conc is not None:
                if a.conc == b.conc:
                    return a
                raise Unmergeable()      # keep constants concrete (loops over them are unrolled)
            # `if X in s: s = s.replace(X, "")`: the removal result equals s when X is absent
            # (library contract of replace), so it stands for both arms
            for r, o in ((a, b), (b, a)):
                rf = r.tags.get("removed_from")
                if rf is not None and rf[0].a.get_id() == o.a.get_id() and \
                        rf[0].lo.get_id() == o.lo.get_id() and rf[0].hi.get_id() == o.hi.get_id():
                    return r
            # `if s: s = QUOTER(s)`: a quoter maps '' to '' (its contract), so when the unquoted
            # arm is taken only for the empty string the quoted value stands for both arms
            for r, o, oc in ((a, b, z3.Not(c)), (b, a, c)):
                qb = r.tags.get("quoted_by")
                if qb is not None and qb[1].a.get_id() == o.a.get_id() and \
                        qb[1].lo.get_id() == o.lo.get_id() and qb[1].hi.get_id() == o.hi.get_id():
                    if self.sol.check(z3.And(oc, o.len() > 0), timeout_ms=500) == z3.unsat:
                        return r
            if self.merging != "all" and a.a.get_id() != b.a.get_id():
                raise Unmergeable()      # light policy: no ite over different arrays
            arr = smt.arr_ite(c, a.a, b.a)
            lo = V.name_term(ctx, z3.If(c, a.lo, b.lo), "mlo") if a.lo.get_id() != b.lo.get_id() else a.lo
            hi = V.name_term(ctx, z3.If(c, a.hi, b.hi), "mhi") if a.hi.get_id() != b.hi.get_id() else a.hi
            return VStr(arr, lo, hi, kind=a.kind)
        if isinstance(a, (VNone, VOpt)) or isinstance(b, (VNone, VOpt)):
            an = z3.BoolVal(True) if isinstance(a, VNone) else (a.isnone if isinstance(a, VOpt) else z3.BoolVal(False))
            bn = z3.BoolVal(True) if isinstance(b, VNone) else (b.isnone if isinstance(b, VOpt) else z3.BoolVal(False))
            av = None if isinstance(a, VNone) else (a.val if isinstance(a, VOpt) else a)
            bv = None if isinstance(b, VNone) else (b.val if isinstance(b, VOpt) else b)
            if av is None:
                av = bv
            if bv is None:
                bv = av
            if not isinstance(av, (VStr, VInt, VBool)) or type(av) is not type(bv):
                raise Unmergeable()
            return VOpt(z3.simplify(z3.If(c, an, bn)), self.merge_value(c, av, bv, ctx))
        if isinstance(a, VTuple) and isinstance(b, VTuple) and len(a.items) == len(b.items):
            return VTuple([self.merge_value(c, x, y, ctx) for x, y in zip(a.items, b.items)])
        if isinstance(a, VList) and isinstance(b, VList) and len(a.items) == len(b.items) and a.fresh == b.fresh:
            return VList([self.merge_value(c, x, y, ctx) for x, y in zip(a.items, b.items)], a.fresh)
        if isinstance(a, VDict) and isinstance(b, VDict) and a.d.keys() == b.d.keys() and a.fresh == b.fresh:
            return VDict({k: self.merge_value(c, a.d[k], b.d[k], ctx) for k in a.d}, a.fresh)
        if isinstance(a, VObj) and isinstance(b, VObj) and a.cls == b.cls and a.fields.keys() == b.fields.keys():
            return VObj(a.cls, {k: self.merge_value(c, a.fields[k], b.fields[k], ctx) for k in a.fields}, a.fresh and b.fresh)
        if isinstance(a, VSymCache) and isinstance(b, VSymCache) and a.removed == b.removed and a.extra.keys() == b.extra.keys():
            n = VSymCache(self.merge_value(c, a.owner, b.owner, ctx), a.removed,
                          {k: self.merge_value(c, a.extra[k], b.extra[k], ctx) for k in a.extra})
            return n
        if isinstance(a, VConst) and isinstance(b, VConst) and a.obj is b.obj:
            return a
        if isinstance(a, VExc) and isinstance(b, VExc) and a.cls is b.cls:
            return a
        raise Unmergeable()

    def merge_states(self, c, n0, s1, s2):
        """join of the two arms of a conditional: s1 was explored under c, s2 under not c, both
        from a state with n0 = (#facts, #qfacts, #bounds).  Definitional facts (library
        contracts: conservative extensions) of both arms are kept; facts that hold only on a
        path (conditions, checked assumptions) are guarded by the arm's condition."""
        nf, nq, nb = n0
        if s1.handled != s2.handled or len(s1.guards) != len(s2.guards):
            raise Unmergeable()
        m = St(self)
        m.ctx = Ctx(self.sol)
        m.ctx.facts = list(s1.ctx.facts[:nf])
        m.ctx.qfacts = list(s1.ctx.qfacts[:nq])
        m.ctx.bounds = list(s1.ctx.bounds[:nb])
        m.ctx.cond = {i for i in s1.ctx.cond if i < nf}
        for attr in ("memo", "opaque"):
            d = {}
            for sx in (s2, s1):
                d.update(getattr(sx.ctx, attr, {}) or {})
            # decisions taken inside an arm hold on that arm only
            d1, d2 = getattr(s1.ctx, attr, {}) or {}, getattr(s2.ctx, attr, {}) or {}
            for k in [k for k in d if isinstance(k, tuple) and k and k[0] in ("decided", "split")]:
                if not (k in d1 and k in d2 and d1[k] == d2[k]):
                    del d[k]
            setattr(m.ctx, attr, d)
        cm1, cm2 = getattr(s1.ctx, "callmemo", {}) or {}, getattr(s2.ctx, "callmemo", {}) or {}
        m.ctx.callmemo = {k: v for k, v in cm1.items() if k in cm2 and cm2[k] is v}
        m.ctx.views = {}
        for sx in (s1, s2):
            for k, lst in (getattr(sx.ctx, "views", {}) or {}).items():
                tgt = m.ctx.views.setdefault(k, [])
                for w in lst:
                    if not any(w is x for x in tgt):
                        tgt.append(w)
        for attr in ("dec_apps", "fn_apps", "lt_apps", "lt_strs", "hash_apps"):
            apps = list(getattr(s1.ctx, attr, []) or [])
            for x in getattr(s2.ctx, attr, []) or []:
                if not any(x is y for y in apps):
                    apps.append(x)
            setattr(m.ctx, attr, apps)
        # values first (may raise Unmergeable before anything is asserted)
        scratch = Ctx(None)
        scratch.memo = {}
        env = {}
        for k in list(s1.env.keys()) + [k for k in s2.env if k not in s1.env]:
            if k in s1.env and k in s2.env:
                if k in ("__globals__", "__caller_env__"):
                    env[k] = s1.env[k]
                else:
                    env[k] = self.merge_value(c, s1.env[k], s2.env[k], scratch)
            else:
                env[k] = s1.env.get(k, s2.env.get(k))
        # caller frames (a conditional inside a callee): merge them too
        if "__caller_env__" in s1.env:
            env["__caller_env__"] = self.merge_envs(c, s1.env["__caller_env__"], s2.env["__caller_env__"], scratch)
        ghost = {}
        for k in s1.ghost:
            if k in s2.ghost:
                ghost[k] = self.merge_value(c, s1.ghost[k], s2.ghost[k], scratch)
        # now assert
        for sx, cx in ((s1, c), (s2, z3.Not(c))):
            for i in range(nf, len(sx.ctx.facts)):
                f = sx.ctx.facts[i]
                if i == nf:
                    continue            # the arm's own condition
                if i in sx.ctx.cond:
                    m.ctx.assume(z3.Implies(cx, f))
                else:
                    m.ctx.add(f)
            for q in sx.ctx.qfacts[nq:]:
                m.ctx.qfacts.append(q)
                self.sol.add_q(q)
            for b in sx.ctx.bounds[nb:]:
                m.ctx.bound(b)
        m.ctx.add(*scratch.facts)
        for b in scratch.bounds:
            m.ctx.bound(b)
        m.env = env
        m.ghost = ghost
        m.remap = dict(s2.remap)
        m.remap.update(s1.remap)
        for (ia, ib), (r, a, b) in (getattr(scratch, "heap_merge", {}) or {}).items():
            m.remap[ia] = (a, r)
            m.remap[ib] = (b, r)
        k = 0
        while k < len(s1.pc) and k < len(s2.pc) and s1.pc[k].get_id() == s2.pc[k].get_id():
            k += 1
        m.pc = s1.pc[:k]
        m.guards = list(s1.guards)
        m.handled = list(s1.handled)
        self.nmerges = getattr(self, "nmerges", 0) + 1
        return m

    def merge_envs(self, c, e1, e2, ctx):
        if e1 is e2:
            return e1
        out = {}
        for k in list(e1.keys()) + [k for k in e2 if k not in e1]:
            if k in e1 and k in e2:
                if k == "__globals__":
                    out[k] = e1[k]
                elif k == "__caller_env__":
                    out[k] = self.merge_envs(c, e1[k], e2[k], ctx)
                else:
                    out[k] = self.merge_value(c, e1[k], e2[k], ctx)
            else:
                out[k] = e1.get(k, e2.get(k))
        return out

    def light(self, n0, s1, s2):
        """merge policy: join two arms only when neither introduced quantified facts
        (merged queries with many guarded quantifier instances are much slower than forks)"""
        return True

    def force(self, st, vals, i=0):
        """split VOpt values of a list into the None / not-None cases; yields (list, st)"""
        while i < len(vals) and not isinstance(vals[i], VOpt):
            i += 1
        if i == len(vals):
            yield vals, st
            return
        v = vals[i]
        if st.guards:
            # inside a non-forking boolean: the value must not be None here (else the real code
            # raises TypeError/AttributeError) -- an obligation under the current guards
            self.oblige(st, "optional-is-not-None", "safety", z3.Not(v.isnone), None, {"exception": "TypeError"})
            nv = list(vals)
            nv[i] = v.val
            yield from self.force(st, nv, i + 1)
            return
        for b, s2 in self.branch(st, v.isnone):
            nv = list(vals)
            nv[i] = NONE if b else v.val
            yield from self.force(s2, nv, i + 1)

    def split2(self, st, cond):
        """feasibility of both sides of a condition: (f1, f2).  'Both feasible' answers are
        cached per path (remaining both-feasible later is a sound over-approximation)."""
        memo = getattr(st.ctx, "memo", None)
        if memo is None:
            memo = st.ctx.memo = {}
        cs = z3.simplify(cond)
        neg = z3.is_not(cs)
        d = memo.get(("decided", (cs.arg(0) if neg else cs).get_id()))
        if d is not None:
            d = (not d) if neg else d
            return (True, False) if d else (False, True)
        key = ("split", cond.get_id())
        if key in memo:
            return True, True
        f1 = self.sol.check(cond, timeout_ms=self.feas_timeout_ms) != z3.unsat
        f2 = self.sol.check(z3.Not(cond), timeout_ms=self.feas_timeout_ms) != z3.unsat if f1 else True
        if f1 and f2:
            memo[key] = True
        return f1, f2

    # ------------------------------------------------------------ expressions
    def eval(self, e, st):
        m = getattr(self, "e_" + type(e).__name__, None)
        if m is None:
            raise Unsupported(f"expression {type(e).__name__} at {self.where(e)}")
        yield from m(e, st)

    def eval1(self, e, st):
        """evaluate an expression that cannot fork (used for contract snippets)"""
        outs = list(self.eval(e, st))
        if len(outs) != 1:
            raise Unsupported(f"expression forks ({len(outs)}) at {self.where(e)}")
        return outs[0]

    def eval_cond(self, e, st):
        """evaluate an expression in boolean context: yields (z3 Bool | Raised, st).
        and / or / not over operands that evaluate without forking are combined into one
        formula (operand i is evaluated under the guard of operands < i, so its safety
        obligations are conditional); otherwise the generic forking evaluation is used."""
        if isinstance(e, ast.UnaryOp) and isinstance(e.op, ast.Not):
            for t, s2 in self.eval_cond(e.operand, st):
                yield (t if isinstance(t, Raised) else z3.Not(t)), s2
            return
        if isinstance(e, ast.BoolOp):
            yield from self._cond_seq(e.values, 0, st, isinstance(e.op, ast.And), e)
            return
        for v, s2 in self.eval(e, st):
            yield (v if isinstance(v, Raised) else self.truth(s2, v)), s2

    def _cond_seq(self, vals, i, st, is_and, node):
        for t, s2 in self.eval_cond(vals[i], st):
            if isinstance(t, Raised) or i == len(vals) - 1:
                yield t, s2
                continue
            ct = z3.simplify(t)
            if z3.is_true(ct) or z3.is_false(ct):
                if z3.is_true(ct) == is_and:
                    yield from self._cond_seq(vals, i + 1, s2, is_and, node)
                else:
                    yield z3.BoolVal(not is_and), s2
                continue
            # first try to evaluate the remaining operands without forking, under the guard
            s2.guards.append(t if is_and else z3.Not(t))
            try:
                outs = self._speculate(s2, lambda: self._cond_seq(vals, i + 1, s2, is_and, node))
            finally:
                s2.guards.pop()
            if outs is not None:
                r = outs[0][0]
                yield (z3.And(t, r) if is_and else z3.Or(t, r)), s2
                continue
            # the attempt was rolled back and is repeated properly below
            for b, s3 in self.branch(s2, t):
                if b == is_and:
                    yield from self._cond_seq(vals, i + 1, s3, is_and, node)
                else:
                    yield z3.BoolVal(not is_and), s3

    def _speculate(self, s2, run):
        """Evaluate `run()` (a generator over (value, state)) as a *trial*: if it yields exactly
        one outcome on the same state the trial is kept, otherwise everything it added to the
        path context (facts assumed inside forks that ran on this very state object) and to the
        solver is rolled back -- the caller then repeats the evaluation with proper forking."""
        ctx = s2.ctx
        nf, nq, nb = len(ctx.facts), len(ctx.qfacts), len(ctx.bounds)
        memo0 = dict(getattr(ctx, "memo", None) or {})
        has_memo = getattr(ctx, "memo", None) is not None
        cond0 = set(ctx.cond)
        callmemo0 = dict(getattr(ctx, "callmemo", None) or {}) if hasattr(ctx, "callmemo") else None
        env0, ghost0 = s2.env, dict(s2.ghost)
        envcopy = dict(s2.env)
        nob = len(self.obligations)
        self.sol.push()
        try:
            try:
                outs = list(run())
            except Unsupported:
                outs = None
        finally:
            self.sol.pop()
        ok = outs is not None and len(outs) == 1 and not isinstance(outs[0][0], Raised) and outs[0][1] is s2
        if ok:
            # keep the trial: what it added was asserted inside the popped scope -- assert it again
            for f in ctx.facts[nf:]:
                self.sol.add_fact(f)
            for q in ctx.qfacts[nq:]:
                self.sol.add_q(q)
            for b in ctx.bounds[nb:]:
                self.sol.add_bound(b)
            return outs
        del ctx.facts[nf:]
        del ctx.qfacts[nq:]
        del ctx.bounds[nb:]
        ctx.cond = cond0
        if has_memo:
            ctx.memo = memo0
        if callmemo0 is not None:
            ctx.callmemo = callmemo0
        s2.env = env0
        s2.env.clear()
        s2.env.update(envcopy)
        s2.ghost = ghost0
        del self.obligations[nob:]
        return None

    def e_ListComp(self, e, st):
        """[elt for t1 in it1 for t2 in it2 ...] over sequences of concrete length (no filters): the
        comprehension is unrolled; comprehension variables live in a scratch frame"""
        if any(g.ifs or g.is_async for g in e.generators):
            raise Unsupported("comprehension with a filter")
        saved = dict(st.env)

        def gen(gi, s2):
            if gi == len(e.generators):
                for v, s3 in self.eval(e.elt, s2):
                    yield ([v] if not isinstance(v, Raised) else v), s3
                return
            g = e.generators[gi]
            for it, s3 in self.eval(g.iter, s2):
                if isinstance(it, Raised):
                    yield it, s3
                    continue
                seq = self.iter_items(s3, it)
                if seq is None:
                    raise Unsupported("comprehension over a sequence of symbolic length")
                yield from each(gi, g, seq, 0, s3)

        def each(gi, g, seq, k, s2):
            if k == len(seq):
                yield [], s2
                return
            self.assign(s2, g.target, seq[k])
            for head, s3 in gen(gi + 1, s2):
                if isinstance(head, Raised):
                    yield head, s3
                    continue
                for rest, s4 in each(gi, g, seq, k + 1, s3):
                    if isinstance(rest, Raised):
                        yield rest, s4
                    else:
                        yield head + rest, s4
        for items, s2 in gen(0, st):
            # the comprehension's variables do not leak
            for name in [n for n in s2.env if n not in saved]:
                del s2.env[name]
            for name, val in saved.items():
                if name in s2.env and s2.env[name] is not val and any(
                        isinstance(t, ast.Name) and t.id == name for g in e.generators for t in ast.walk(g.target)):
                    s2.env[name] = val
            yield (items if isinstance(items, Raised) else VList(items, fresh=True)), s2

    def e_Constant(self, e, st):
        if e.value is Ellipsis:
            yield VConst(Ellipsis), st
        else:
            yield self.wrap(e.value), st

    def lookup(self, name, st):
        if name in st.env:
            return st.env[name]
        g = st.env.get("__globals__")
        if g is not None and name in g:
            return self.wrap(g[name])
        if hasattr(builtins, name):
            b = getattr(builtins, name)
            p = self.native_by_id.get(id(b))
            return p if p is not None else VConst(b)
        raise Unsupported(f"unbound name {name}")

    def e_Name(self, e, st):
        v = self.lookup(e.id, st)
        if isinstance(v, VOpt) and not st.guards:
            v = self.resolve_opt(st, v)
            st.env[e.id] = v
        yield v, st

    def resolve_opt(self, st, v):
        """a merged optional whose None-ness the path already decides is replaced by its case"""
        c = z3.simplify(v.isnone)
        if z3.is_true(c):
            return NONE
        if z3.is_false(c):
            return v.val
        f1, f2 = self.split2(st, c)
        if f1 and not f2:
            return NONE
        if f2 and not f1:
            return v.val
        return v

    def e_Tuple(self, e, st):
        for items, s2 in self.eval_list(e.elts, st):
            if not isinstance(items, Raised) and any(isinstance(x, Chunks) for x in items):
                yield PL.from_items(items), s2
                continue
            yield (items if isinstance(items, Raised) else VTuple(items)), s2

    def e_List(self, e, st):
        for items, s2 in self.eval_list(e.elts, st):
            if not isinstance(items, Raised) and any(isinstance(x, Chunks) for x in items):
                yield PL.from_items(items), s2
                continue
            yield (items if isinstance(items, Raised) else VList(items, fresh=True)), s2

    def eval_list(self, exprs, st, i=0):
        """evaluate expressions left to right; yields (list, st) or (Raised, st)"""
        if i == len(exprs):
            yield [], st
            return
        ex = exprs[i]
        star = isinstance(ex, ast.Starred)
        for v, s2 in self.eval(ex.value if star else ex, st):
            if isinstance(v, Raised):
                yield v, s2
                continue
            if star and isinstance(v, VPList):
                for rest, s3 in self.eval_list(exprs, s2, i + 1):
                    if isinstance(rest, Raised):
                        yield rest, s3
                    else:
                        yield [Chunks(v if s3 is s2 and not s3.remap else s3.tr(v))] + rest, s3
                continue
            if star and not isinstance(v, (VTuple, VList)):
                raise Unsupported("star of non-sequence")
            for rest, s3 in self.eval_list(exprs, s2, i + 1):
                if isinstance(rest, Raised):
                    yield rest, s3
                else:
                    vv = v if s3 is s2 and not s3.remap else s3.tr(v)
                    yield (list(vv.items) if star else [vv]) + rest, s3

    def e_Dict(self, e, st):
        if any(k is None for k in e.keys):
            raise Unsupported("dict unpacking")
        for vals, s2 in self.eval_list(list(e.keys) + list(e.values), st):
            if isinstance(vals, Raised):
                yield vals, s2
                continue
            n = len(e.keys)
            d = {}
            for k, v in zip(vals[:n], vals[n:]):
                if not (isinstance(k, VStr) and k.conc is not None):
                    raise Unsupported("dict literal with non-constant key")
                d[k.conc] = v
            yield VDict(d, fresh=True), s2

    def e_JoinedStr(self, e, st):
        parts = []
        for p in e.values:
            if isinstance(p, ast.Constant):
                parts.append(p)
            else:
                parts.append(p)
        for items, s2 in self.eval_list([p.value if isinstance(p, ast.FormattedValue) else p for p in parts], st):
            if isinstance(items, Raised):
                yield items, s2
                continue
            for fitems, s3 in self.force(s2, items):
                strs = []
                for p, v in zip(parts, fitems):
                    if isinstance(p, ast.FormattedValue):
                        if p.conversion != -1 or p.format_spec is not None:
                            strs.append(self.fmt_opaque(s3, v, p))
                        else:
                            strs.append(self.to_str(s3, v))
                    else:
                        strs.append(v)
                yield V.concat(s3.ctx, strs), s3

    def fmt_opaque(self, st, v, p):
        spec = None
        if p.format_spec is not None and p.conversion == -1 and len(p.format_spec.values) == 1 \
                and isinstance(p.format_spec.values[0], ast.Constant):
            spec = p.format_spec.values[0].value
        if spec == "02X" and isinstance(v, VInt):
            # library contract of format(int, "02X") for 0 <= v < 256: two upper-case hex digits
            r = V.fresh_str(st.ctx, "hex2")
            t = v.t
            def hx(d):
                return z3.If(d < 10, d + 48, d + 55)
            st.ctx.add(z3.Implies(z3.And(t >= 0, t < 256),
                                  z3.And(r.len() == 2, r.a[0] == hx(t / 16), r.a[1] == hx(t % 16))))
            two = VStr(r.a, 0, 2)
            self.oblige(st, "format-02X-of-a-byte", "safety", z3.And(t >= 0, t < 256), p, {"note": "two-digit contract"})
            return two
        # formatted with !r or another format spec: only used in error messages
        return V.fresh_str(st.ctx, "fmt")

    def to_str(self, st, v):
        if isinstance(v, VStr):
            return v
        if isinstance(v, VInt):
            return V.itoa(st.ctx, v.t)
        if isinstance(v, VNone):
            return lit("None")
        if isinstance(v, VConst) and isinstance(v.obj, (int, float, str)):
            return lit(str(v.obj))
        if isinstance(v, VBool) and v.conc() is not None:
            return lit(str(v.conc()))
        return V.fresh_str(st.ctx, "str")

    def e_NamedExpr(self, e, st):
        for v, s2 in self.eval(e.value, st):
            if not isinstance(v, Raised):
                s2.env[e.target.id] = v
            yield v, s2

    def e_IfExp(self, e, st):
        for c, s2 in self.eval_cond(e.test, st):
            if isinstance(c, Raised):
                yield c, s2
                continue
            cond = z3.simplify(c)
            if z3.is_true(cond) or z3.is_false(cond):
                yield from self.eval(e.body if z3.is_true(cond) else e.orelse, s2)
                continue
            if s2.guards:
                # inside a non-forking boolean: both arms must be plain values
                a, _ = self.eval1(e.body, s2)
                b, _ = self.eval1(e.orelse, s2)
                yield self.merge_value(cond, a, b, s2.ctx), s2
                continue
            f1, f2 = self.split2(s2, cond)
            if not (f1 and f2):
                if f1 or f2:
                    s2.assume(cond if f1 else z3.Not(cond))
                    yield from self.eval(e.body if f1 else e.orelse, s2)
                continue
            n0 = (len(s2.ctx.facts), len(s2.ctx.qfacts), len(s2.ctx.bounds))
            other = s2.fork()
            results = []
            for b, sb, sub in ((True, s2, e.body), (False, other, e.orelse)):
                self.sol.push()
                try:
                    sb.assume(cond if b else z3.Not(cond))
                    for v, s3 in self.eval(sub, sb):
                        results.append((b, v, s3))
                finally:
                    self.sol.pop()
            if (len(results) == 2 and results[0][0] != results[1][0] and self.merging
                    and not getattr(e, "_nomerge", False)
                    and self.light(n0, results[0][2], results[1][2])
                    and not isinstance(results[0][1], Raised) and not isinstance(results[1][1], Raised)):
                try:
                    scratch = Ctx(None)
                    scratch.memo = {}
                    mv = self.merge_value(cond, results[0][1], results[1][1], scratch)
                    m = self.merge_states(cond, n0, results[0][2], results[1][2])
                    m.ctx.add(*scratch.facts)
                    for bb in scratch.bounds:
                        m.ctx.bound(bb)
                except Unmergeable:
                    m = None
                if m is not None:
                    yield mv, m
                    continue
            for b, v, s3 in results:
                with self.activate(s3):
                    yield v, s3

    def e_UnaryOp(self, e, st):
        if isinstance(e.op, ast.Not):
            for t, s2 in self.eval_cond(e.operand, st):
                yield (t if isinstance(t, Raised) else VBool(z3.Not(t))), s2
            return
        for v, s2 in self.eval(e.operand, st):
            if isinstance(v, Raised):
                yield v, s2
            elif isinstance(e.op, ast.Not):
                yield VBool(z3.Not(self.truth(s2, v))), s2
            elif isinstance(e.op, ast.USub) and isinstance(v, VInt):
                yield VInt(-v.t), s2
            else:
                raise Unsupported(f"unary {type(e.op).__name__}")

    def e_BoolOp(self, e, st):
        yield from self.boolop(e, e.values, 0, st)

    def boolop(self, e, vals, i, st):
        is_and = isinstance(e.op, ast.And)
        for v, s2 in self.eval(vals[i], st):
            if i == len(vals) - 1 or isinstance(v, Raised):
                yield v, s2
                continue
            t = self.truth(s2, v)
            ct = z3.simplify(t)
            if z3.is_true(ct) or z3.is_false(ct):
                take_rest = z3.is_true(ct) if is_and else z3.is_false(ct)
                if take_rest:
                    yield from self.boolop(e, vals, i + 1, s2)
                else:
                    yield v, s2
                continue
            # try the non-forking combination when both sides are plain booleans
            if isinstance(v, VBool):
                s2.guards.append(t if is_and else z3.Not(t))
                try:
                    outs = self._speculate(s2, lambda: self.boolop(e, vals, i + 1, s2))
                finally:
                    s2.guards.pop()
                if outs is not None and isinstance(outs[0][0], VBool):
                    r = outs[0][0].t
                    yield VBool(z3.And(t, r) if is_and else z3.Or(t, r)), s2
                    continue
                if outs is not None:
                    # a single non-boolean value: fall back to the forking evaluation (the kept trial
                    # only added definitional facts)
                    pass
            for b, s3 in self.branch(s2, t):
                if b == is_and:
                    yield from self.boolop(e, vals, i + 1, s3)
                else:
                    yield v, s3

    def e_Compare(self, e, st):
        for vals, s2 in self.eval_list([e.left] + e.comparators, st):
            if isinstance(vals, Raised):
                yield vals, s2
                continue
            if any(isinstance(op, (ast.In, ast.NotIn, ast.Lt, ast.LtE, ast.Gt, ast.GtE)) for op in e.ops) and \
                    any(isinstance(x, VOpt) for x in vals):
                for fv, s3 in self.force(s2, vals):
                    cs = [self.compare(s3, op, fv[i], fv[i + 1], e) for i, op in enumerate(e.ops)]
                    yield VBool(cs[0] if len(cs) == 1 else z3.And(cs)), s3
                continue
            cs = [self.compare(s2, op, vals[i], vals[i + 1], e) for i, op in enumerate(e.ops)]
            yield VBool(cs[0] if len(cs) == 1 else z3.And(cs)), s2

    def compare(self, st, op, l, r, node=None):
        ctx = st.ctx
        if isinstance(op, (ast.Is, ast.IsNot)):
            res = self.identical(l, r)
            return z3.Not(res) if isinstance(op, ast.IsNot) else res
        if isinstance(op, (ast.Eq, ast.NotEq)):
            res = self.equal(st, l, r)
            return z3.Not(res) if isinstance(op, ast.NotEq) else res
        if isinstance(op, (ast.In, ast.NotIn)):
            res = self.contains(st, r, l)
            return z3.Not(res) if isinstance(op, ast.NotIn) else res
        if isinstance(l, VInt) and isinstance(r, VInt):
            a, b = l.t, r.t
            return {ast.Lt: a < b, ast.LtE: a <= b, ast.Gt: a > b, ast.GtE: a >= b}[type(op)]
        if isinstance(l, VStr) and isinstance(r, VInt) and self.is_char(l):
            return self.compare(st, op, VInt(self.char_code(l)), r, node)
        if isinstance(l, VInt) and isinstance(r, VStr) and self.is_char(r):
            return self.compare(st, op, l, VInt(self.char_code(r)), node)
        if isinstance(l, VBool) and isinstance(r, VBool) and isinstance(op, ast.LtE):
            return z3.Implies(l.t, r.t)          # bool <= bool is implication
        if isinstance(l, VStr) and isinstance(r, VStr):
            # character comparisons  '0' <= v <= '9'
            if self.is_char(l) and self.is_char(r):
                a, b = self.char_code(l), self.char_code(r)
                return {ast.Lt: a < b, ast.LtE: a <= b, ast.Gt: a > b, ast.GtE: a >= b}[type(op)]
            lt, gt = V.str_lt(st.ctx, l, r), V.str_lt(st.ctx, r, l)
            return {ast.Lt: lt, ast.LtE: z3.Not(gt), ast.Gt: gt, ast.GtE: z3.Not(lt)}[type(op)]
        if isinstance(l, VTuple) and isinstance(r, VTuple) and len(l.items) == len(r.items):
            # lexicographic comparison of tuples
            strict = isinstance(op, (ast.Lt, ast.Gt))
            less = isinstance(op, (ast.Lt, ast.LtE))
            alts = []
            prefix = []
            for a, b in zip(l.items, r.items):
                c = self.compare(st, ast.Lt() if less else ast.Gt(), a, b, node)
                alts.append(z3.And(prefix + [c]))
                prefix = prefix + [self.equal(st, a, b)]
            if not strict:
                alts.append(z3.And(prefix))
            return z3.Or(alts)
        raise Unsupported(f"comparison {type(op).__name__} on {l!r}, {r!r}")

    def is_char(self, s):
        if s.conc is not None:
            return len(s.conc) == 1
        d = is_conc_int(z3.simplify(s.hi - s.lo))
        return d == 1

    def char_code(self, s):
        if s.conc is not None:
            return iv(V.codes_of(s)[0])
        return s.a[s.lo]

    def identical(self, l, r):
        def pytype(x):
            if isinstance(x, Prim):
                return {"str": str, "int": int, "bool": bool, "tuple": tuple, "list": list, "type": type, "bytes": bytes}.get(x.name)
            return None
        if pytype(l) is not None or pytype(r) is not None:
            a = pytype(l) or (l.obj if isinstance(l, VConst) else None)
            b = pytype(r) or (r.obj if isinstance(r, VConst) else None)
            return z3.BoolVal(a is not None and a is b)
        if isinstance(l, VStr) and isinstance(r, VStr):
            return z3.BoolVal(l is r)
        if isinstance(l, VOpt) and isinstance(r, VNone):
            return l.isnone
        if isinstance(r, VOpt) and isinstance(l, VNone):
            return r.isnone
        if isinstance(l, VNone) or isinstance(r, VNone):
            return z3.BoolVal(isinstance(l, VNone) and isinstance(r, VNone))
        if isinstance(l, VBool) and isinstance(r, VBool):
            return l.t == r.t
        if isinstance(l, VConst) and isinstance(r, VConst):
            return z3.BoolVal(l.obj is r.obj)
        if isinstance(l, VConst) or isinstance(r, VConst):
            return z3.BoolVal(False)
        if isinstance(l, (VObj, VList, VDict)) or isinstance(r, (VObj, VList, VDict)):
            return z3.BoolVal(l is r)
        raise Unsupported(f"identity of {l!r} and {r!r}")

    def equal(self, st, l, r):
        if isinstance(l, VOpt) or isinstance(r, VOpt):
            ln = l.isnone if isinstance(l, VOpt) else z3.BoolVal(isinstance(l, VNone))
            rn = r.isnone if isinstance(r, VOpt) else z3.BoolVal(isinstance(r, VNone))
            lv = l.val if isinstance(l, VOpt) else l
            rv = r.val if isinstance(r, VOpt) else r
            if isinstance(lv, VNone) or isinstance(rv, VNone):
                return z3.And(ln, rn)
            return z3.Or(z3.And(ln, rn), z3.And(z3.Not(ln), z3.Not(rn), self.equal(st, lv, rv)))
        if isinstance(l, VNone) or isinstance(r, VNone):
            return z3.BoolVal(isinstance(l, VNone) and isinstance(r, VNone))
        if isinstance(l, VInt) and isinstance(r, VInt):
            return l.t == r.t
        if isinstance(l, VSeg) or isinstance(r, VSeg):
            def sid(x):
                if isinstance(x, VSeg):
                    return x.t
                if isinstance(x, VStr) and x.conc is not None:
                    return iv(V.seg_id(x.conc))
                raise Unsupported(f"segment compared with {x!r}")
            return sid(l) == sid(r)
        if isinstance(l, VSList) and isinstance(r, VSList):
            return V.str_eq(st.ctx, l.view, r.view)
        if isinstance(l, VBool) and isinstance(r, VBool):
            return l.t == r.t
        if isinstance(l, VBool) and isinstance(r, VInt):
            return z3.If(l.t, 1, 0) == r.t
        if isinstance(l, VInt) and isinstance(r, VBool):
            return l.t == z3.If(r.t, 1, 0)
        if isinstance(l, VStr) and isinstance(r, VStr):
            if l.kind != r.kind:
                return z3.BoolVal(False)
            return V.str_eq(st.ctx, l, r)
        if getattr(self, "c_semantics", False):
            # Cython: a character literal compared with a Py_UCS4 / char value is its code point
            if isinstance(l, VStr) and isinstance(r, VInt) and self.is_char(l):
                return self.char_code(l) == r.t
            if isinstance(l, VInt) and isinstance(r, VStr) and self.is_char(r):
                return l.t == self.char_code(r)
        if isinstance(l, (VTuple, VList)) and isinstance(r, (VTuple, VList)):
            if type(l) is not type(r) or len(l.items) != len(r.items):
                return z3.BoolVal(False)
            return z3.And([self.equal(st, a, b) for a, b in zip(l.items, r.items)] + [z3.BoolVal(True)])
        if isinstance(l, VConst) and isinstance(r, VConst):
            return z3.BoolVal(l.obj == r.obj)
        if type(l) is not type(r):
            if isinstance(l, (VStr, VInt, VTuple, VList, VConst)) and isinstance(r, (VStr, VInt, VTuple, VList, VConst)):
                return z3.BoolVal(False)
        if isinstance(l, VObj) and isinstance(r, VObj) and l.cls == r.cls == "Block":
            # pointer comparison; a block is the static BUFFER iff its `static` flag is set
            if l is r:
                return z3.BoolVal(True)
            if l.fields.get("is_BUFFER"):
                return r.fields["static"].t
            if r.fields.get("is_BUFFER"):
                return l.fields["static"].t
            return z3.BoolVal(False)
        if isinstance(l, VObj) and isinstance(r, VObj):
            if l is r:
                return z3.BoolVal(True)
            if {l.cls, r.cls} <= {"URL", "U"}:
                def parts(o):
                    pre = "_" if o.cls == "URL" else ""
                    return [o.fields.get(pre + k) for k in ("scheme", "netloc", "path", "query", "fragment")]
                lp, rp = parts(l), parts(r)
                if any(x is None for x in lp + rp):
                    return z3.BoolVal(False)     # a slot was never assigned
                return z3.And([self.equal(st, a, b) for a, b in zip(lp, rp)])
        raise Unsupported(f"equality of {l!r} and {r!r}")

    def contains(self, st, container, item):
        ctx = st.ctx
        if isinstance(container, VStr) and container.kind == "bytes" and isinstance(item, VInt):
            if container.conc is None:
                raise Unsupported("int in symbolic bytes")
            return V.in_set(item.t, list(container.conc))
        if isinstance(container, VStr):
            if isinstance(item, VInt) and getattr(self, "c_semantics", False) and container.conc is not None:
                # Cython: a Py_UCS4 value `in` a str is a test on its code point
                return V.in_set(item.t, V.codes_of(container))
            if not isinstance(item, VStr):
                raise Unsupported("'in <str>' with non-str")
            if container.conc is not None:
                if item.conc is not None:
                    return z3.BoolVal(item.conc in container.conc)
                # symbolic item in a constant string: item must be a single character here
                if self.is_char(item):
                    return V.in_set(item.a[item.lo], V.codes_of(container))
                # general: item == some substring; only the empty / single-char cases are decidable here
                codes = V.codes_of(container)
                return z3.Or(item.len() == 0,
                             z3.And(item.len() == 1, V.in_set(item.a[item.lo], codes)),
                             self.substring_of_const(st, item, container))
            if item.conc is not None and len(item.conc) == 0:
                return z3.BoolVal(True)
            return V.find(ctx, container, item) >= 0
        if isinstance(container, (VTuple, VList)):
            return z3.Or([self.equal(st, item, x) for x in container.items] + [z3.BoolVal(False)])
        if isinstance(container, VConst) and isinstance(container.obj, (frozenset, set, dict, tuple, list)):
            objs = list(container.obj)
            if isinstance(item, VStr):
                if item.conc is not None:
                    return z3.BoolVal(item.conc in container.obj)
                return z3.Or([V.str_eq(ctx, item, lit(o)) for o in objs if isinstance(o, str)] + [z3.BoolVal(False)])
            if isinstance(item, VInt):
                return V.in_set(item.t, [o for o in objs if isinstance(o, int)])
        if isinstance(container, VConst) and isinstance(container.obj, range) and container.obj.step == 1 \
                and isinstance(item, VInt):
            return z3.And(item.t >= container.obj.start, item.t < container.obj.stop)
        if isinstance(container, VDict):
            if isinstance(item, VStr) and item.conc is not None:
                return z3.BoolVal(item.conc in container.d)
        raise Unsupported(f"'in' on {container!r} with {item!r}")

    def substring_of_const(self, st, item, container):
        n = len(container.conc)
        alts = []
        for L in range(2, n + 1):
            for i in range(0, n - L + 1):
                alts.append(V.str_eq(st.ctx, item, lit(container.conc[i:i + L], container.kind)))
            if L > 4:
                break
        return z3.Or(alts + [z3.BoolVal(False)])

    def e_BinOp(self, e, st):
        for vals, s3 in self.eval_list([e.left, e.right], st):
            if isinstance(vals, Raised):
                yield vals, s3
            else:
                for fv, s4 in self.force(s3, vals):
                    yield self.binop(s4, e.op, fv[0], fv[1], e), s4

    def binop(self, st, op, l, r, node=None):
        if isinstance(l, VInt) and isinstance(r, VInt):
            a, b = l.t, r.t
            if isinstance(op, ast.Add):
                return VInt(a + b)
            if isinstance(op, ast.Sub):
                return VInt(a - b)
            if isinstance(op, ast.Mult):
                return VInt(a * b)
            if isinstance(op, ast.FloorDiv):
                cb = is_conc_int(b)
                if cb is not None and cb > 0:
                    return VInt(a / b)   # z3 integer division == floor for positive divisor
            if isinstance(op, ast.Mod):
                cb = is_conc_int(b)
                if cb is not None and cb > 0:
                    return VInt(a % b)
            if isinstance(op, (ast.BitOr, ast.BitAnd, ast.LShift, ast.RShift)):
                return VInt(self.bitop(st, op, a, b))
        if isinstance(op, ast.Mult) and isinstance(l, VList) and isinstance(r, VInt) and r.conc() is not None \
                and all(isinstance(x, VInt) for x in l.items):
            # [0] * N: a C array declared in the .pyx (pyxfront) -- N slots with the given initial values
            nl = VList([VInt(x.t) for _ in range(r.conc()) for x in l.items], fresh=True)
            nl.bytes = True
            return nl
        if isinstance(op, ast.Add):
            if isinstance(l, VStr) and isinstance(r, VStr):
                return V.concat(st.ctx, [l, r], kind=l.kind)
            if isinstance(l, VList) and isinstance(r, VList):
                return VList(l.items + r.items, fresh=True)
            if isinstance(l, VTuple) and isinstance(r, VTuple):
                return VTuple(l.items + r.items)
        if isinstance(op, ast.BitOr) and isinstance(l, VBool) and isinstance(r, VBool):
            return VBool(z3.Or(l.t, r.t))
        if isinstance(op, ast.BitOr) and isinstance(l, VBool) and isinstance(r, VInt):
            return VInt(self.bitop(st, op, z3.If(l.t, 1, 0), r.t))
        if isinstance(op, ast.BitOr) and isinstance(l, VInt) and isinstance(r, VBool):
            return VInt(self.bitop(st, op, l.t, z3.If(r.t, 1, 0)))
        raise Unsupported(f"binary {type(op).__name__} on {l!r}, {r!r} at {self.where(node)}")

    def bitop(self, st, op, a, b):
        ca, cb = is_conc_int(a), is_conc_int(b)
        if ca is not None and cb is not None:
            return iv({ast.BitOr: ca | cb, ast.BitAnd: ca & cb, ast.LShift: ca << cb, ast.RShift: ca >> cb}[type(op)])
        if isinstance(op, ast.RShift) and cb is not None:
            return a / (2 ** cb)
        if isinstance(op, ast.LShift) and cb is not None:
            return a * (2 ** cb)
        if isinstance(op, ast.BitAnd) and cb is not None and (cb + 1) & cb == 0:
            return a % (cb + 1)          # mask 2^k-1 on a non-negative value
        if isinstance(op, ast.BitAnd) and ca is not None and (ca + 1) & ca == 0:
            return b % (ca + 1)
        if isinstance(op, ast.BitOr):
            # x | y == x + y when x is a multiple of 2^k and 0 <= y < 2^k (disjoint bit ranges);
            # k is read off x syntactically, the range of y is proved by the solver
            def pow2_factor(t):
                c = is_conc_int(t)
                if c is not None:
                    if c == 0:
                        return 64
                    k = 0
                    while c % 2 == 0:
                        c //= 2
                        k += 1
                    return k
                t = z3.simplify(t)
                if z3.is_mul(t) and t.num_args() == 2:
                    for i in (0, 1):
                        c = is_conc_int(t.arg(i))
                        if c is not None and c > 0 and (c & (c - 1)) == 0:
                            return c.bit_length() - 1
                return 0
            for x, y in ((a, b), (b, a)):
                k = pow2_factor(x)
                if k > 0:
                    k = min(k, 62)
                    if self.sol.check(z3.Not(z3.And(y >= 0, y < 2 ** k)), timeout_ms=400) == z3.unsat:
                        return z3.simplify(x + y)
            w = 32
            r = fresh_int("bor")
            st.ctx.add(z3.Implies(z3.And(a >= 0, a < 2 ** w, b >= 0, b < 2 ** w),
                                  r == z3.BV2Int(z3.Int2BV(a, w) | z3.Int2BV(b, w))))
            return r
        if isinstance(op, ast.BitAnd):
            w = 32
            r = fresh_int("band")
            st.ctx.add(z3.Implies(z3.And(a >= 0, a < 2 ** w, b >= 0, b < 2 ** w),
                                  r == z3.BV2Int(z3.Int2BV(a, w) & z3.Int2BV(b, w))))
            return r
        raise Unsupported("bit operation")

    def e_Subscript(self, e, st):
        none = ast.Constant(value=None)
        if isinstance(e.slice, ast.Slice):
            if e.slice.step is not None:
                raise Unsupported("slice step")
            parts = [e.value, e.slice.lower or none, e.slice.upper or none]
            for vals, s3 in self.eval_list(parts, st):
                if isinstance(vals, Raised):
                    yield vals, s3
                    continue
                for fv, s4 in self.force(s3, vals):
                    lo = None if isinstance(fv[1], VNone) else fv[1]
                    hi = None if isinstance(fv[2], VNone) else fv[2]
                    if isinstance(fv[0], VPList):
                        cl = None if lo is None else lo.conc()
                        ch = None if hi is None else hi.conc()
                        if cl is None and ch == -1 and hi is not None:
                            yield PL.l_drop_last(fv[0]), s4
                        elif cl == 1 and hi is None:
                            yield PL.l_drop_first(fv[0]), s4
                        else:
                            raise Unsupported("this slice of a split list")
                        continue
                    yield self.slice(s4, fv[0], lo, hi, e), s4
        else:
            for vals, s3 in self.eval_list([e.value, e.slice], st):
                if isinstance(vals, Raised):
                    yield vals, s3
                else:
                    for fv, s4 in self.force(s3, vals):
                        yield from self.index(s4, fv[0], fv[1], e)

    def slice(self, st, base, lo, hi, node):
        if isinstance(base, VStr):
            return V.slice_(st.ctx, base, None if lo is None else lo.t, None if hi is None else hi.t)
        if isinstance(base, (VTuple, VList)):
            cl = None if lo is None else lo.conc()
            ch = None if hi is None else hi.conc()
            if (lo is not None and cl is None) or (hi is not None and ch is None):
                raise Unsupported("symbolic slice of list")
            items = base.items[cl:ch]
            if isinstance(base, VTuple):
                return VTuple(items)
            nl = VList(items, fresh=True)
            if getattr(base, "bytes", False):
                nl.bytes = True
            return nl
        raise Unsupported(f"slice of {base!r}")

    def index(self, st, base, idx, node):
        if isinstance(base, VStr):
            if not isinstance(idx, VInt):
                raise Unsupported("str index")
            n = base.len()
            ok = z3.And(idx.t >= -n, idx.t < n)
            for kind, s2 in self.raise_or_oblige(st, IndexError, ok, "index-in-range", node):
                if kind == "ok":
                    yield V.char_at(s2.ctx, base, idx.t), s2
                else:
                    yield Raised(VExc(IndexError)), s2
            return
        if isinstance(base, VPList):
            ci = idx.conc() if isinstance(idx, VInt) else None
            if ci == -1:
                yield from PL.l_last(self, st, base, node)
            elif ci == 0:
                yield from PL.l_first(self, st, base, node)
            else:
                raise Unsupported("this index into a split list")
            return
        if isinstance(base, VSList):
            v = base.view
            n = v.len()
            ok = z3.And(idx.t >= -n, idx.t < n)
            for kind, s2 in self.raise_or_oblige(st, IndexError, ok, "index-in-range", node):
                if kind == "ok":
                    j = V.name_term(s2.ctx, z3.If(idx.t < 0, idx.t + n, idx.t), "li")
                    yield VSeg(v.a[V.name_term(s2.ctx, v.lo + j, "li")]), s2
                else:
                    yield Raised(VExc(IndexError)), s2
            return
        if isinstance(base, (VTuple, VList)):
            ci = idx.conc() if isinstance(idx, VInt) else None
            if ci is None:
                raise Unsupported("symbolic index into list")
            n = len(base.items)
            if -n <= ci < n:
                yield base.items[ci], st
            else:
                for kind, s2 in self.raise_or_oblige(st, IndexError, z3.BoolVal(False), "index-in-range", node):
                    if kind == "raise":
                        yield Raised(VExc(IndexError)), s2
            return
        if isinstance(base, VSymCache) and isinstance(idx, VStr) and idx.conc is not None:
            from . import lib
            if idx.conc in base.extra:
                yield base.extra[idx.conc], st
                return
            for v, s2 in lib.symcache_lookup(self, st, base, idx.conc, node):
                if v is None:
                    for kind, s3 in self.raise_or_oblige(s2, KeyError, z3.BoolVal(False), "key-present", node):
                        if kind == "raise":
                            yield Raised(VExc(KeyError)), s3
                else:
                    yield v, s2
            return
        if isinstance(base, VDict):
            if isinstance(idx, VStr) and idx.conc is not None:
                if idx.conc in base.d:
                    yield base.d[idx.conc], st
                else:
                    for kind, s2 in self.raise_or_oblige(st, KeyError, z3.BoolVal(False), "key-present", node):
                        if kind == "raise":
                            yield Raised(VExc(KeyError)), s2
                return
        if isinstance(base, VConst) and isinstance(base.obj, dict) and isinstance(idx, VStr) and idx.conc is not None:
            yield self.wrap(base.obj[idx.conc]), st
            return
        raise Unsupported(f"subscript of {base!r}")

    def e_Attribute(self, e, st):
        for base, s2 in self.eval(e.value, st):
            if isinstance(base, Raised):
                yield base, s2
            else:
                for fv, s3 in self.force(s2, [base]):
                    b = fv[0]
                    if isinstance(b, VObj) and e.attr not in b.fields:
                        prop = self.lookup_property(b, e.attr)
                        if prop is not None:
                            yield from self.read_property(s3, b, e.attr, prop, e)
                            continue
                    yield self.getattr(s3, b, e.attr, e), s3

    # ---- objects of repository classes (yarl.URL): slots + per-object memo --------------
    def class_object(self, clsname):
        if clsname == "URL":
            import yarl._url
            return yarl._url.URL
        if clsname == "U":
            from contracts.spec_url import U
            return U
        raise Unsupported(f"class {clsname}")

    def class_modsrc(self, clsname):
        if clsname == "URL":
            return ModuleSrc.get("yarl._url")
        return None

    def lookup_property(self, obj, name):
        """AST of a (cached) property of the object's class, or None"""
        ms = self.class_modsrc(obj.cls)
        if ms is None:
            return None
        node = ms.funcs.get(f"{obj.cls}.{name}")
        if node is None:
            return None
        for d in node.decorator_list:
            dn = d.id if isinstance(d, ast.Name) else getattr(d, "attr", None)
            if dn in ("cached_property", "property", "under_cached_property"):
                return node
        return None

    def read_property(self, st, obj, name, node, at):
        """obj.<cached property>: the memo entry if the object's cache (a dict built in this
        activation) has one, else the value its body computes from the object (propcache's
        under_cached_property is trusted to implement exactly this memo; that pre-filled and
        lazily computed entries agree is obligation C09)."""
        cache = obj.fields.get("_cache")
        if isinstance(cache, VDict) and name in cache.d:
            yield cache.d[name], st
            return
        ms = self.class_modsrc(obj.cls)
        f = UserFn(ms, node, f"{obj.cls}.{name}", self_obj=obj)
        yield from self.call_user(st, f, [], {}, at)

    def class_attr(self, obj, name):
        ms = self.class_modsrc(obj.cls)
        if ms is None:
            return None
        node = ms.funcs.get(f"{obj.cls}.{name}")
        if node is not None:
            return UserFn(ms, node, f"{obj.cls}.{name}", self_obj=obj)
        return None

    def getattr(self, st, base, name, node=None):
        if isinstance(base, VObj):
            if name in base.fields:
                return base.fields[name]
            if base.cls == "Match" and name in ("start", "group"):
                return BoundMethod(base, name)
            if base.cls == "Utf8Decoder" and name in ("decode", "reset"):
                return BoundMethod(base, name)
            m = self.class_attr(base, name)
            if m is not None:
                return m
            raise Unsupported(f"attribute {name} of {base.cls}")
        if isinstance(base, (VStr, VList, VDict, VTuple, VSymCache, VStream, VSList, VPList)):
            return BoundMethod(base, name)
        if isinstance(base, VConst):
            cls = type(base.obj)
            if getattr(cls, "__module__", "") == "yarl._quoting_c_pyx":
                ms = ModuleSrc.get(cls.__module__)
                fnode = ms.funcs.get(f"{cls.__name__}.{name}")
                if fnode is not None:
                    return UserFn(ms, fnode, f"{cls.__name__}.{name}", self_obj=base)
            try:
                return self.wrap(getattr(base.obj, name))
            except AttributeError:
                raise Unsupported(f"attribute {name} of {base.obj!r}")
        if isinstance(base, Prim) and base.name == "tuple" and name == "__new__":
            return VConst(tuple.__new__)
        if isinstance(base, VNone):
            raise Unsupported(f"attribute {name} of None at {self.where(node)}")
        if isinstance(base, VInt) and name in ("real",):
            return base
        raise Unsupported(f"attribute {name} of {base!r}")

    def e_Call(self, e, st):
        kwnames = [k.arg for k in e.keywords]
        if any(k is None for k in kwnames):
            # f(..., **d) with d a dict built in this activation (possibly empty)
            if sum(1 for k in kwnames if k is None) != 1 or kwnames[-1] is not None:
                raise Unsupported("**kwargs call shape")
            for vals, s2 in self.eval_list([e.func] + list(e.args) + [k.value for k in e.keywords], st):
                if isinstance(vals, Raised):
                    yield vals, s2
                    continue
                d = vals[-1]
                if not isinstance(d, VDict):
                    raise Unsupported("** of a non-dict")
                nk = len(kwnames) - 1
                kw = dict(zip(kwnames[:-1], vals[len(vals) - 1 - nk:len(vals) - 1]))
                kw.update(d.d)
                yield from self.call(s2, vals[0], vals[1:len(vals) - 1 - nk], kw, e)
            return
        n = len(e.args)
        for vals, s2 in self.eval_list([e.func] + list(e.args) + [k.value for k in e.keywords], st):
            if isinstance(vals, Raised):
                yield vals, s2
                continue
            f = vals[0]
            nstar = len(vals) - 1 - len(kwnames)
            if isinstance(f, (Prim, BoundMethod)) and any(isinstance(x, VOpt) for x in vals):
                for fv, s3 in self.force(s2, vals):
                    yield from self.call(s3, fv[0], fv[1:1 + nstar], dict(zip(kwnames, fv[1 + nstar:])), e)
                continue
            args = vals[1:1 + nstar]
            kw = dict(zip(kwnames, vals[1 + nstar:]))
            yield from self.call(s2, f, args, kw, e)

    def call(self, st, f, args, kwargs, node):
        if isinstance(f, BoundMethod):
            from . import lib
            yield from lib.call_method(self, st, f.recv, f.name, args, kwargs, node)
            return
        if isinstance(f, Prim):
            yield from f.fn(self, st, args, kwargs, node)
            return
        if isinstance(f, UserFn):
            yield from self.call_user(st, f, args, kwargs, node)
            return
        if isinstance(f, VConst):
            obj = f.obj
            if isinstance(obj, type) and issubclass(obj, BaseException):
                yield VExc(obj, args), st
                return
            if isinstance(obj, type) and obj.__module__.startswith("contracts") and hasattr(obj, "__slots__"):
                fields = dict(zip(obj.__slots__, args))
                fields.update(kwargs)
                yield VObj(obj.__name__, fields, fresh=True), st
                return
            if isinstance(obj, type) and obj.__module__ == "yarl._quoting_c_pyx" and not args and not kwargs \
                    and "__init__" not in obj.__dict__:
                # a C struct declared in the .pyx (cdef struct): a fresh record of its fields
                fields = {k: NONE for k, v in obj.__dict__.items() if not k.startswith("__")}
                yield VObj(obj.__name__, fields, fresh=True), st
                return
            import re as _re
            if isinstance(getattr(obj, "__self__", None), _re.Pattern) and obj.__name__ == "search":
                from . import lib
                yield lib.pattern_search(self, st, obj.__self__, args[0], node), st
                return
            if isinstance(getattr(obj, "__self__", None), _re.Pattern) and obj.__name__ in ("match", "fullmatch"):
                from . import lib
                yield lib.regex_classes(self, st, obj.__self__, args[0], obj.__name__ == "fullmatch"), st
                return
            if obj is bytearray:
                if args:
                    raise Unsupported("bytearray(x)")
                bl = VList([], fresh=True)
                bl.bytes = True
                yield bl, st
                return
            if getattr(obj, "__name__", None) == "get" and isinstance(getattr(obj, "__self__", None), dict):
                yield self.const_dict_get(st, obj.__self__, args[0], args[1] if len(args) > 1 else NONE), st
                return
            if obj is tuple.__new__ and len(args) == 2 and isinstance(args[1], VTuple):
                yield args[1], st          # a tuple subclass instance with the same items
                return
            if obj is object.__new__:
                cls = args[0].obj
                yield VObj(cls.__name__, {}, fresh=True), st
                return
            p = self.native_by_id.get(id(obj))
            if p is not None:
                yield from p.fn(self, st, args, kwargs, node)
                return
            # concrete call on fully concrete arguments (module constants etc.)
            try:
                cargs = [self.unwrap(a) for a in args]
                ckw = {k: self.unwrap(v) for k, v in kwargs.items()}
            except Unsupported:
                raise Unsupported(f"call of native {obj!r} with symbolic arguments at {self.where(node)}")
            if getattr(obj, "__module__", "") in ("builtins", "math") or isinstance(obj, type):
                try:
                    yield self.wrap(obj(*cargs, **ckw)), st
                except (TypeError, ValueError, OverflowError) as e:
                    yield Raised(VExc(type(e))), st
                return
            raise Unsupported(f"call of native {obj!r} at {self.where(node)}")
        raise Unsupported(f"call of {f!r} at {self.where(node)}")

    def const_dict_get(self, st, d, key, default):
        """<module-level dict>.get(symbolic str key[, default]) for a small constant table"""
        if isinstance(key, VStr) and key.conc is not None:
            return self.wrap(d[key.conc]) if key.conc in d else default
        if not isinstance(key, VStr) or not all(isinstance(k, str) for k in d):
            raise Unsupported("dict.get with this key type")
        res = default
        for k, v in reversed(list(d.items())):
            c = V.str_eq(st.ctx, key, lit(k))
            res = self.merge_value(c, self.wrap(v), res, st.ctx)
        return res

    def unwrap(self, v):
        if isinstance(v, VNone):
            return None
        if isinstance(v, VInt):
            c = v.conc()
            if c is None:
                raise Unsupported("symbolic int")
            return c
        if isinstance(v, VBool):
            c = v.conc()
            if c is None:
                raise Unsupported("symbolic bool")
            return c
        if isinstance(v, VStr):
            if v.conc is None:
                raise Unsupported("symbolic str")
            return v.conc
        if isinstance(v, VTuple):
            return tuple(self.unwrap(x) for x in v.items)
        if isinstance(v, VList):
            return [self.unwrap(x) for x in v.items]
        if isinstance(v, VConst):
            return v.obj
        raise Unsupported(f"unwrap {v!r}")

    def bind_args(self, fnode, args, kwargs, self_obj=None):
        a = fnode.args
        names = [x.arg for x in a.posonlyargs + a.args]
        env = {}
        pos = list(args)
        if self_obj is not None:
            pos = [self_obj] + pos
        if len(pos) > len(names) and a.vararg is None:
            raise Unsupported("too many positional arguments")
        for n, v in zip(names, pos):
            env[n] = v
        if a.vararg is not None:
            env[a.vararg.arg] = VTuple(pos[len(names):])
        if a.kwarg is not None:
            known = set(names) | {k.arg for k in a.kwonlyargs}
            env[a.kwarg.arg] = VDict({k: v for k, v in kwargs.items() if k not in known}, fresh=True)
            kwargs = {k: v for k, v in kwargs.items() if k in known}
        defaults = a.defaults
        dnames = names[len(names) - len(defaults):] if defaults else []
        for n, d in zip(dnames, defaults):
            if n not in env and n not in kwargs:
                env[n] = self.const_default(d)
        for k, v in kwargs.items():
            env[k] = v
        for kw, d in zip(a.kwonlyargs, a.kw_defaults):
            if kw.arg not in env:
                if d is None:
                    raise Unsupported(f"missing kw-only argument {kw.arg}")
                env[kw.arg] = self.const_default(d)
        for n in names:
            if n not in env:
                raise Unsupported(f"missing argument {n}")
        return env

    def const_default(self, d):
        if isinstance(d, ast.Constant):
            return self.wrap(d.value)
        if isinstance(d, ast.Name):
            return None  # resolved lazily by caller through module globals
        raise Unsupported("non-constant default")

    def call_user(self, st, f, args, kwargs, node):
        """call of a repo function: through its contract if it has one, else inlined"""
        qual = f"{f.modsrc.modname}:{f.qual}"
        c = self.contracts.get(qual)
        if c is not None and getattr(c, "call_inline", False):
            c = None
        elif c is None:
            c = self.spec_contract(f)
            if c is not None and c.qual == getattr(self, "verifying", None):
                c = None
            elif c is not None and not c.opaque:
                c = None
        if c is not None and qual != getattr(self, "verifying", None):
            self.called_contracts.add(qual)
            full = ([f.self_obj] if f.self_obj is not None else []) + list(args)
            yield from c.apply(self, st, full, kwargs, node, f)
            return
        if f.modsrc.modname.startswith("yarl"):
            self.inlined.add(qual)
        elif f.modsrc.modname.startswith("contracts") and f.self_obj is None:
            # specification calling a specification: pure, summarised per path
            from .verify import call_spec
            yield from call_spec(self, st, f, args, kwargs, node)
            return
        yield from self.run_function(st, f, args, kwargs, node)

    def run_function(self, st, f, args, kwargs, node=None):
        """inline execution of a function body; yields (value, st) for returns and
        (Raised, st) for raises"""
        env = self.bind_args(f.node, args, kwargs, f.self_obj)
        for k, v in list(env.items()):
            if v is None:
                names = [x.arg for x in f.node.args.args]
                nd = len(f.node.args.defaults)
                dn = [d for n, d in zip(names[len(names) - nd:], f.node.args.defaults) if n == k]
                if not dn:
                    dn = [d for kw, d in zip(f.node.args.kwonlyargs, f.node.args.kw_defaults) if kw.arg == k]
                env[k] = self.wrap(f.modsrc.mod.__dict__[dn[0].id])
        caller_env = st.env
        saved = (self.cur_func, getattr(self, "cur_file", None))
        env["__globals__"] = f.modsrc.mod.__dict__
        env["__caller_env__"] = caller_env
        st.env = env
        callee = (f"{f.modsrc.modname}:{f.qual}",
                  os.path.relpath(f.modsrc.path, REPO) if f.modsrc.path.startswith(REPO) else os.path.basename(f.modsrc.path))
        self.cur_func, self.cur_file = callee
        try:
            for flow, val, s2 in self.exec_block(f.node.body, 0, st):
                # restore the caller's frame in the (possibly forked) state
                s2.env = s2.env.get("__caller_env__", caller_env) if s2 is not st else caller_env
                self.cur_func, self.cur_file = saved
                try:
                    if flow in ("next", "return"):
                        yield (val if flow == "return" and val is not None else NONE), s2
                    elif flow == "raise":
                        yield Raised(val), s2
                    else:
                        raise Unsupported(f"{flow} outside loop")
                finally:
                    self.cur_func, self.cur_file = callee
        finally:
            self.cur_func, self.cur_file = saved

    def spec_contract(self, f):
        """the contract whose specification is the function f (a spec calling another spec
        uses the same opaque summary as the code calling the real function)"""
        idx = getattr(self, "_spec_index", None)
        if idx is None:
            idx = self._spec_index = {}
            for c in self.contracts.values():
                if c.spec is not None:
                    idx[(c.spec.__module__, c.spec.__qualname__)] = c
        return idx.get((f.modsrc.modname, f.qual))

    def run_range(self, st, f, env, start, end):
        """execute the top-level statements body[start:end] of f in `env` (already bound);
        yields (flow, value, state) with flow in next / return / raise; the state's env is
        the function's frame, so the caller can read its locals"""
        env["__globals__"] = f.modsrc.mod.__dict__
        st.env = env
        saved = (self.cur_func, getattr(self, "cur_file", None))
        callee = (f"{f.modsrc.modname}:{f.qual}",
                  os.path.relpath(f.modsrc.path, REPO) if f.modsrc.path.startswith(REPO) else os.path.basename(f.modsrc.path))
        self.cur_func, self.cur_file = callee
        try:
            for flow, val, s2 in self.exec_block(f.node.body[start:end], 0, st):
                self.cur_func, self.cur_file = saved
                try:
                    if flow in ("next", "return", "raise"):
                        yield flow, val, s2
                    else:
                        raise Unsupported(f"{flow} outside loop")
                finally:
                    self.cur_func, self.cur_file = callee
        finally:
            self.cur_func, self.cur_file = saved

    def bind_params(self, f, args, names=None):
        a = f.node.args
        if names is not None and a.vararg is not None and a.vararg.arg in names:
            # the contract names the *args tuple as one parameter: spread it
            kw = dict(zip(names, args))
            star = kw.pop(a.vararg.arg)
            pos = [kw.pop(x.arg) for x in a.posonlyargs + a.args if x.arg in kw] + list(star.items)
            env = self.bind_args(f.node, pos, kw, f.self_obj)
        elif names is not None and a.kwonlyargs:
            # keyword-only parameters: bind the contract's parameters by name
            kw = dict(zip(names, args))
            pos = [kw.pop(x.arg) for x in a.posonlyargs + a.args if x.arg in kw]
            env = self.bind_args(f.node, pos, kw, f.self_obj)
        else:
            env = self.bind_args(f.node, list(args), {}, f.self_obj)
        for k, v in list(env.items()):
            if v is None:
                names = [x.arg for x in f.node.args.args]
                nd = len(f.node.args.defaults)
                dn = [d for n, d in zip(names[len(names) - nd:], f.node.args.defaults) if n == k]
                if not dn:
                    dn = [d for kw, d in zip(f.node.args.kwonlyargs, f.node.args.kw_defaults) if kw.arg == k]
                env[k] = self.wrap(f.modsrc.mod.__dict__[dn[0].id])
        return env

    # ------------------------------------------------------------ statements
    def exec_block(self, stmts, i, st):
        if i == len(stmts):
            yield "next", None, st
            return
        for flow, val, s2 in self.exec_stmt(stmts[i], st):
            if flow == "next":
                yield from self.exec_block(stmts, i + 1, s2)
            else:
                yield flow, val, s2

    def exec_stmt(self, s, st):
        m = getattr(self, "s_" + type(s).__name__, None)
        if m is None:
            raise Unsupported(f"statement {type(s).__name__} at {self.where(s)}")
        yield from m(s, st)

    def s_Pass(self, s, st):
        yield "next", None, st

    def s_Expr(self, s, st):
        if isinstance(s.value, ast.Constant):
            yield "next", None, st
            return
        for v, s2 in self.eval(s.value, st):
            if isinstance(v, Raised):
                yield "raise", v.exc, s2
            else:
                yield "next", None, s2

    def s_Return(self, s, st):
        if s.value is None:
            yield "return", NONE, st
            return
        if isinstance(s.value, ast.IfExp):
            s.value._nomerge = True      # the path ends here: merging the arms buys nothing
        for v, s2 in self.eval(s.value, st):
            if isinstance(v, Raised):
                yield "raise", v.exc, s2
            else:
                yield "return", v, s2

    def s_Assign(self, s, st):
        for v, s2 in self.eval(s.value, st):
            if isinstance(v, Raised):
                yield "raise", v.exc, s2
                continue
            for tgt in s.targets:
                self.assign(s2, tgt, v)
            yield "next", None, s2

    def s_AnnAssign(self, s, st):
        if s.value is None:
            yield "next", None, st
            return
        for v, s2 in self.eval(s.value, st):
            if isinstance(v, Raised):
                yield "raise", v.exc, s2
                continue
            self.assign(s2, s.target, v)
            yield "next", None, s2

    def s_AugAssign(self, s, st):
        load = ast.copy_location(_as_load(s.target), s.target)
        for vals, s3 in self.eval_list([load, s.value], st):
            if isinstance(vals, Raised):
                yield "raise", vals.exc, s3
                continue
            cur, v = vals
            if isinstance(s.op, ast.Add) and (isinstance(cur, VPList) or (isinstance(cur, VList) and isinstance(v, VPList))):
                # list += split list (or the other way round): the name is re-bound to the extended split list
                if isinstance(cur, VList):
                    if cur.items and not all(isinstance(x, VStr) for x in cur.items):
                        raise Unsupported("list += split list")
                    base = PL.as_plist(cur, v)
                    base = VPList(base.chunks, v.sep, True, v.rev)
                else:
                    self.check_frame(s3, cur, s)
                    base = cur
                PL.l_extend(base, v)
                self.assign(s3, s.target, base)
                yield "next", None, s3
                continue
            if isinstance(cur, VBool) and isinstance(v, VBool) and isinstance(s.op, (ast.BitOr, ast.BitAnd)):
                r = VBool(z3.Or(cur.t, v.t) if isinstance(s.op, ast.BitOr) else z3.And(cur.t, v.t))
                self.assign(s3, s.target, r)
                yield "next", None, s3
                continue
            if isinstance(cur, VList) and isinstance(s.op, ast.Add):
                if not isinstance(v, (VList, VTuple)):
                    raise Unsupported("list += non-list")
                self.check_frame(s3, cur, s)
                cur.items.extend(v.items)
                yield "next", None, s3
                continue
            r = self.binop(s3, s.op, cur, v, s)
            self.assign(s3, s.target, r)
            yield "next", None, s3

    def check_frame(self, st, obj, node):
        """frame obligation: only objects fresh in this activation may be mutated"""
        if not getattr(obj, "fresh", True):
            self.oblige(st, "frame:mutates-non-fresh-object", "frame", z3.BoolVal(False), node)

    def assign(self, st, tgt, v):
        if isinstance(tgt, ast.Name):
            st.env[tgt.id] = v
        elif isinstance(tgt, (ast.Tuple, ast.List)):
            if isinstance(v, (VTuple, VList)):
                items = v.items
            else:
                raise Unsupported(f"unpacking {v!r}")
            star = [i for i, t in enumerate(tgt.elts) if isinstance(t, ast.Starred)]
            if star:
                i = star[0]
                after = len(tgt.elts) - i - 1
                if len(items) < len(tgt.elts) - 1:
                    raise Unsupported("unpack length")
                for t, x in zip(tgt.elts[:i], items[:i]):
                    self.assign(st, t, x)
                self.assign(st, tgt.elts[i].value, VList(items[i:len(items) - after], fresh=True))
                for t, x in zip(tgt.elts[i + 1:], items[len(items) - after:]):
                    self.assign(st, t, x)
                return
            if len(items) != len(tgt.elts):
                raise Unsupported(f"unpack length mismatch at {self.where(tgt)}")
            for t, x in zip(tgt.elts, items):
                self.assign(st, t, x)
        elif isinstance(tgt, ast.Attribute):
            base, _ = self.eval1(tgt.value, st)
            if not isinstance(base, VObj):
                raise Unsupported("attribute store on non-object")
            self.check_frame(st, base, tgt)
            base.fields[tgt.attr] = v
        elif isinstance(tgt, ast.Subscript):
            base, _ = self.eval1(tgt.value, st)
            idx, _ = self.eval1(tgt.slice, st)
            self.check_frame(st, base, tgt)
            if isinstance(base, VObj) and base.cls == "Block":
                from . import cmodel
                cmodel.block_store(self, st, base, idx, v, tgt)
            elif isinstance(base, VSymCache) and isinstance(idx, VStr) and idx.conc is not None:
                base.extra[idx.conc] = v
                base.removed.discard(idx.conc)
            elif isinstance(base, VDict) and isinstance(idx, VStr) and idx.conc is not None:
                base.d[idx.conc] = v
            elif isinstance(base, VPList) and isinstance(idx, VInt) and idx.conc() in (0, -1) and isinstance(v, VStr):
                if base.rev:
                    raise Unsupported("element store into a reversed split list")
                if idx.conc() == -1:
                    PL.set_last(base, v)
                else:
                    PL.set_first(base, v)
            elif isinstance(base, VList) and isinstance(idx, VInt) and idx.conc() is not None:
                ci = idx.conc()
                if not (-len(base.items) <= ci < len(base.items)):
                    self.oblige(st, "index-in-range", "safety", z3.BoolVal(False), tgt, {"exception": "IndexError"})
                else:
                    base.items[ci] = v
            else:
                raise Unsupported("subscript store")
        else:
            raise Unsupported(f"assignment target {type(tgt).__name__}")

    def s_If(self, s, st):
        for c, s2 in self.eval_cond(s.test, st):
            if isinstance(c, Raised):
                yield "raise", c.exc, s2
                continue
            cond = z3.simplify(c)
            if z3.is_true(cond) or z3.is_false(cond):
                yield from self.exec_block(s.body if z3.is_true(cond) else s.orelse, 0, s2)
                continue
            f1, f2 = self.split2(s2, cond)
            if os.environ.get("PYVC_TRACE_IF") and s2.guards:
                print("IF-under-guards", self.where(s), str(cond)[:120], f1, f2, "guards", len(s2.guards), flush=True)
            if not (f1 and f2):
                if f1 or f2:
                    s2.assume(cond if f1 else z3.Not(cond))
                    yield from self.exec_block(s.body if f1 else s.orelse, 0, s2)
                continue
            n0 = (len(s2.ctx.facts), len(s2.ctx.qfacts), len(s2.ctx.bounds))
            other = s2.fork()
            outs = {True: [], False: []}
            for b, sb, body in ((True, s2, s.body), (False, other, s.orelse)):
                self.sol.push()
                try:
                    sb.assume(cond if b else z3.Not(cond))
                    for flow, val, s3 in self.exec_block(body, 0, sb):
                        if flow in ("next", "return"):
                            outs[b].append((flow, val, s3))     # candidates for a join
                        else:
                            yield flow, val, s3
                finally:
                    self.sol.pop()
            a, bb = outs[True], outs[False]
            if len(a) == 1 and len(bb) == 1 and a[0][0] == bb[0][0] and self.merging:
                # both arms complete the same way (fall through, or `return <value>`): join them
                try:
                    scratch = Ctx(None)
                    scratch.memo = {}
                    mv = None
                    if a[0][0] == "return":
                        mv = self.merge_value(cond, a[0][1] if a[0][1] is not None else NONE,
                                              bb[0][1] if bb[0][1] is not None else NONE, scratch)
                    m = self.merge_states(cond, n0, a[0][2], bb[0][2])
                    m.ctx.add(*scratch.facts)
                    for x in scratch.bounds:
                        m.ctx.bound(x)
                except Unmergeable:
                    m = None
                if m is not None:
                    yield a[0][0], mv, m
                    continue
            for flow, val, s3 in a + bb:
                with self.activate(s3):
                    yield flow, val, s3

    def s_Assert(self, s, st):
        for c, s2 in self.eval(s.test, st):
            if isinstance(c, Raised):
                yield "raise", c.exc, s2
                continue
            self.oblige(s2, "assert", "safety", self.truth(s2, c), s, {"exception": "AssertionError"})
            s2.ctx.assume(self.truth(s2, c))
            yield "next", None, s2

    def s_Raise(self, s, st):
        if s.exc is None:
            yield "raise", VExc(getattr(st, "pending_exc", Exception)), st
            return
        for v, s2 in self.eval(s.exc, st):
            if isinstance(v, Raised):
                yield "raise", v.exc, s2
                continue
            if isinstance(v, VConst) and isinstance(v.obj, type):
                v = VExc(v.obj)
            if not isinstance(v, VExc):
                raise Unsupported("raise of non-exception")
            yield "raise", v, s2

    def s_Break(self, s, st):
        yield "break", None, st

    def s_Continue(self, s, st):
        yield "continue", None, st

    def s_Global(self, s, st):
        yield "next", None, st

    def s_Try(self, s, st):
        classes = []
        for h in s.handlers:
            if h.type is None:
                classes.append(BaseException)
            else:
                hv, _ = self.eval1(h.type, st)
                cs = hv.items if isinstance(hv, VTuple) else [hv]
                classes.extend(c.obj for c in cs)
        st.handled.append(tuple(classes))
        depth = len(st.handled)
        for flow, val, s2 in self.exec_block(s.body, 0, st):
            del s2.handled[depth - 1:]
            if flow == "raise":
                handled = False
                for h in s.handlers:
                    if h.type is None:
                        hc = (BaseException,)
                    else:
                        hv, _ = self.eval1(h.type, s2)
                        hc = tuple(c.obj for c in (hv.items if isinstance(hv, VTuple) else [hv]))
                    if issubclass(val.cls, hc):
                        handled = True
                        if h.name:
                            s2.env[h.name] = val
                        s2.pending_exc = val.cls
                        for f2, v2, s3 in self.exec_block(h.body, 0, s2):
                            yield from self.finally_(s, f2, v2, s3)
                        break
                if not handled:
                    yield from self.finally_(s, flow, val, s2)
            elif flow == "next":
                for f2, v2, s3 in self.exec_block(s.orelse, 0, s2):
                    yield from self.finally_(s, f2, v2, s3)
            else:
                yield from self.finally_(s, flow, val, s2)

    def finally_(self, s, flow, val, st):
        if not s.finalbody:
            yield flow, val, st
            return
        for f2, v2, s2 in self.exec_block(s.finalbody, 0, st):
            if f2 == "next":
                yield flow, val, s2
            else:
                yield f2, v2, s2

    def s_With(self, s, st):
        if len(s.items) != 1:
            raise Unsupported("with: multiple items")
        ce = s.items[0].context_expr
        if not (isinstance(ce, ast.Call) and isinstance(ce.func, ast.Name) and ce.func.id == "suppress"):
            raise Unsupported("with: only contextlib.suppress is supported")
        classes = tuple(self.eval1(a, st)[0].obj for a in ce.args)
        st.handled.append(classes)
        depth = len(st.handled)
        for flow, val, s2 in self.exec_block(s.body, 0, st):
            del s2.handled[depth - 1:]
            if flow == "raise" and issubclass(val.cls, classes):
                yield "next", None, s2
            else:
                yield flow, val, s2

    def s_While(self, s, st):
        """while <cond>: cut by the invariant of the sidecar contract (entry / preservation /
        exit).  Names assigned in the body are havocked; byte lists named in the contract are
        havocked per admissible length; output streams become VStream (emissions are checked
        against the specification step, DESIGN.md 4.2)."""
        spec = self.loop_spec(s)
        if spec is None:
            raise Unsupported(f"while loop without invariant at {self.where(s)}")
        import itertools
        for name in spec.streams:
            cur = st.env.get(name)
            if not (isinstance(cur, VList) and not cur.items):
                raise Unsupported(f"stream {name} is not an empty buffer at the loop head")
            st.env[name] = VStream(name, spec)
        for g, init in spec.ghost.items():
            st.ghost[g] = self.eval1(ast.parse(init, mode="eval").body, st)[0]
        if spec.writer is not None:
            w = st.env.get(spec.writer)
            if not isinstance(w, VObj):
                raise Unsupported("writer object expected")
            w.fields["__stream__"] = VStream(spec.writer, spec)
            self.cur_writer_spec = spec
        self.oblige(st, "loop-invariant-entry", "inv-entry", spec.invariant(self, st), s)
        names = (self.assigned_names(s.body) | set(spec.lists) | set(spec.enums)) - set(spec.streams)
        ranges = [range(lo, hi + 1) for (lo, hi) in spec.lists.values()] + [range(lo, hi + 1) for (lo, hi) in spec.enums.values()]
        lnames = list(spec.lists)
        enames = list(spec.enums)
        base = st.fork()

        def havocked(src, lens):
            h = src.fork()
            for nm in names:
                if nm in enames:
                    # an integer the contract enumerates (the case split makes it concrete)
                    h.env[nm] = VInt(lens[len(lnames) + enames.index(nm)])
                    continue
                if nm in lnames:
                    L = lens[lnames.index(nm)]
                    items = []
                    for i in range(L):
                        v = fresh_int(f"{nm.replace('.', '_')}{i}")
                        h.ctx.add(z3.And(v >= 0, v <= 255))
                        items.append(VInt(v))
                    nl = VList(items, fresh=True)
                    nl.bytes = True
                    if "." in nm:
                        oname, fname = nm.split(".", 1)       # a byte list held in an object's field
                        obj = h.env.get(oname)
                        if not isinstance(obj, VObj):
                            raise Unsupported(f"loop contract names {nm} but {oname} is not an object")
                        obj.fields[fname] = nl
                    else:
                        h.env[nm] = nl
                elif nm in h.env:
                    h.env[nm] = self.havoc(h, nm, h.env[nm])
            for g in spec.ghost:
                cur = src.ghost.get(g)
                h.ghost[g] = VBool(fresh_bool("G" + g)) if isinstance(cur, VBool) else (
                    VInt(0) if g == "k" else VInt(fresh_int("G" + g)))
            for oname, flds in spec.fields.items():
                obj = h.env.get(oname)
                if isinstance(obj, VObj):
                    for fname, kind in flds.items():
                        if kind == "flag":
                            v = fresh_int(f"{oname}_{fname}")
                            h.ctx.add(z3.Or(v == 0, v == 1))
                            obj.fields[fname] = VInt(v)
                        else:
                            obj.fields[fname] = VInt(fresh_int(f"{oname}_{fname}"))
            return h
        for lens in itertools.product(*ranges):
            self.sol.push()
            try:
                body_st = havocked(base, lens)
                if os.environ.get("PYVC_TRACE_INV"):
                    print("INV", lens, str(z3.simplify(spec.invariant(self, body_st)))[:3000], flush=True)
                    if isinstance(spec.tree, ast.BoolOp):
                        for sub in spec.tree.values:
                            try:
                                print("   ", ast.unparse(sub), "=>", str(z3.simplify(self.truth(body_st, spec._eval(self, body_st, sub))))[:400], flush=True)
                            except Exception as e:
                                print("   ", ast.unparse(sub), "=> EXC", e, flush=True)
                inv_t = spec.invariant(self, body_st)
                body_st.assume(inv_t)
                conds = list(self.eval_cond(s.test, body_st))
                if len(conds) != 1 or isinstance(conds[0][0], Raised):
                    raise Unsupported("loop condition forks or raises")
                body_st.assume(conds[0][0])
                if not body_st.feasible():
                    if os.environ.get("PYVC_TRACE"):
                        print("LOOP-CASE infeasible", self.cur_func, lens, flush=True)
                    continue
                if os.environ.get("PYVC_TRACE"):
                    print("LOOP-CASE explored", self.cur_func, lens, flush=True)
                for flow, val, s2 in self.exec_block(s.body, 0, body_st):
                    if flow in ("next", "continue"):
                        for s3 in spec.settle(self, s2, None):
                            self.oblige(s3, "loop-invariant-preserved", "inv-step", spec.invariant(self, s3), s)
                    elif flow == "break":
                        yield "next", None, s2
                    else:
                        yield flow, val, s2
            finally:
                self.sol.pop()
        for lens in itertools.product(*ranges):
            self.sol.push()
            try:
                ex_st = havocked(base, lens)
                ex_st.assume(spec.invariant(self, ex_st))
                conds = list(self.eval_cond(s.test, ex_st))
                ex_st.assume(z3.Not(conds[0][0]))
                if not ex_st.feasible():
                    continue
                if spec.exit is not None:
                    self.oblige(ex_st, "loop-exit:simulation-complete", "inv-exit",
                                self.truth(ex_st, spec._eval(self, ex_st, spec.exit)), s)
                yield from self.exec_block(s.orelse, 0, ex_st)
            finally:
                self.sol.pop()

    def s_For(self, s, st):
        for it, s2 in self.eval(s.iter, st):
            if isinstance(it, Raised):
                yield "raise", it.exc, s2
                continue
            seq = self.iter_items(s2, it)
            if seq is not None:
                yield from self.unroll(s, seq, 0, s2)
            else:
                yield from self.loop_with_invariant(s, it, s2)

    def iter_items(self, st, it):
        """concrete-length iteration -> list of element values, else None"""
        if isinstance(it, VStr):
            if it.conc is not None:
                return [lit(c) for c in it.conc] if it.kind == "str" else [VInt(c) for c in it.conc]
            n = is_conc_int(it.len())
            if n is not None and n <= 12:
                return [V.char_at(st.ctx, it, iv(k)) for k in range(n)]
            return None
        if isinstance(it, (VTuple, VList)):
            return list(it.items)
        if isinstance(it, VSList):
            return None
        if isinstance(it, VConst) and isinstance(it.obj, (tuple, list, range, frozenset)):
            return [self.wrap(x) for x in it.obj]
        raise Unsupported(f"iteration over {it!r}")

    def unroll(self, s, seq, i, st):
        if i == len(seq):
            yield from self.exec_block(s.orelse, 0, st)
            return
        self.assign(st, s.target, seq[i])
        for flow, val, s2 in self.exec_block(s.body, 0, st):
            if flow in ("next", "continue"):
                yield from self.unroll(s, seq, i + 1, s2)
            elif flow == "break":
                yield "next", None, s2
            else:
                yield flow, val, s2

    def loop_spec(self, node):
        """loop contracts are keyed by (function, ordinal of the loop in source order)"""
        ords = self.loop_counter.get(self.cur_func)
        if ords is None:
            ords = self.loop_counter[self.cur_func] = {}
            modname, qual = self.cur_func.split(":")
            fnode = ModuleSrc.get(modname).funcs.get(qual)
            k = 0
            for n in ast.walk(fnode) if fnode is not None else []:
                pass
            loops = sorted((n for n in ast.walk(fnode) if isinstance(n, (ast.For, ast.While))),
                           key=lambda n: (n.lineno, n.col_offset)) if fnode is not None else []
            for k, n in enumerate(loops):
                ords[(n.lineno, n.col_offset)] = k
        spec = self.loop_specs.get((self.cur_func, ords.get((node.lineno, node.col_offset))))
        return self._bind_roles(spec, node)

    def _bind_roles(self, spec, node):
        """loop contracts may name variables by *role* so that renaming a local does not leave the
        contract undecided: __target is the loop variable of a for loop, __acc the one list that the
        body mutates with append / pop"""
        if spec is None or not getattr(spec, "roles", False):
            return spec
        cache = getattr(self, "_role_cache", None)
        if cache is None:
            cache = self._role_cache = {}
        key = (id(spec), node.lineno, node.col_offset)
        if key in cache:
            return cache[key]
        from .verify import LoopSpec
        target = node.target.id if isinstance(node, ast.For) and isinstance(node.target, ast.Name) else None
        accs = []
        for n in ast.walk(ast.Module(body=list(node.body), type_ignores=[])):
            if isinstance(n, ast.Call) and isinstance(n.func, ast.Attribute) and isinstance(n.func.value, ast.Name) \
                    and n.func.attr in ("append", "pop") and n.func.value.id not in accs:
                accs.append(n.func.value.id)
        if target is None or len(accs) != 1:
            raise Unsupported(f"loop contract by role: cannot identify the loop variable / the one accumulated list at {self.where(node)}")

        def sub(x):
            return x.replace("__target", target).replace("__acc", accs[0]) if isinstance(x, str) else x
        raw = {k: sub(v) for k, v in spec.raw.items()}
        raw.pop("roles", None)
        bound = LoopSpec(raw, spec.modsrc)
        cache[key] = bound
        return bound

    def assigned_names(self, stmts):
        """names re-bound in the statements, and names of objects mutated in place by a method"""
        names = set()
        for n in ast.walk(ast.Module(body=list(stmts), type_ignores=[])):
            if isinstance(n, ast.Name) and isinstance(n.ctx, ast.Store):
                names.add(n.id)
            if isinstance(n, ast.Call) and isinstance(n.func, ast.Attribute) and isinstance(n.func.value, ast.Name) \
                    and n.func.attr in ("append", "extend", "pop", "reverse", "clear", "insert", "remove", "sort"):
                names.add(n.func.value.id)
        return names

    def havoc(self, st, name, cur):
        if isinstance(cur, VInt):
            return VInt(fresh_int(name))
        if isinstance(cur, VBool):
            return VBool(fresh_bool(name))
        if isinstance(cur, VStr):
            return V.fresh_str(st.ctx, name, cur.kind)
        if isinstance(cur, VSList):
            return VSList(V.fresh_str(st.ctx, name, "segs"), cur.fresh)
        if isinstance(cur, VList) and not getattr(cur, "bytes", False):
            return VSList(V.fresh_str(st.ctx, name, "segs"), cur.fresh)
        raise Unsupported(f"cannot havoc {name} = {cur!r}")

    def loop_with_invariant(self, s, it, st):
        """for <target> in <symbolic str>: cut by the invariant of the sidecar contract"""
        spec = self.loop_spec(s)
        if spec is None:
            raise Unsupported(f"loop without invariant at {self.where(s)}")
        seglist = isinstance(it, VSList)
        if seglist:
            st.env["__list"] = it
            it = it.view
        if not isinstance(it, VStr):
            raise Unsupported("invariant loops iterate over strings or segment lists")
        n = it.len()
        # 1. entry
        st.env["__k"] = VInt(0)
        st.env["__seq"] = it
        inv0 = spec.invariant(self, st)
        self.oblige(st, f"loop-invariant-entry", "inv-entry", inv0, s)
        # 2. arbitrary iteration
        names = self.assigned_names(s.body) - {t.id for t in ast.walk(s.target) if isinstance(t, ast.Name)}
        base = st.fork()
        body_st = base.fork()
        k = fresh_int("k")
        self.sol.push()
        try:
            for nm in names:
                if nm in body_st.env:
                    body_st.env[nm] = self.havoc(body_st, nm, body_st.env[nm])
                    if isinstance(body_st.env[nm], VSList):
                        body_st.env["OLD_" + nm] = VSList(body_st.env[nm].view, fresh=False)
            body_st.env["__k"] = VInt(k)
            body_st.assume(z3.And(0 <= k, k < n))
            body_st.ctx.bound(it.lo + k, it.lo + k + 1)
            body_st.assume(spec.invariant(self, body_st))
            if seglist:
                self.assign(body_st, s.target, VSeg(it.a[V.name_term(body_st.ctx, it.lo + k, "li")]))
            else:
                self.assign(body_st, s.target, V.char_at(body_st.ctx, it, k))
            for flow, val, s2 in self.exec_block(s.body, 0, body_st):
                if flow in ("next", "continue"):
                    s2.env["__k"] = VInt(k + 1)
                    self.oblige(s2, "loop-invariant-preserved", "inv-step", spec.invariant(self, s2), s)
                    if spec.step_post is not None:
                        self.oblige(s2, "loop-step-conforms-to-specification-step", "inv-step",
                                    self.truth(s2, spec._eval(self, s2, spec.step_post)), s)
                elif flow == "break":
                    s2.env.pop("__k", None)
                    yield "next", None, s2
                else:
                    yield flow, val, s2
        finally:
            self.sol.pop()
        # 3. exit
        ex = base
        self.sol.push()
        try:
            for nm in names:
                if nm in ex.env:
                    ex.env[nm] = self.havoc(ex, nm, ex.env[nm])
            ex.env["__k"] = VInt(n)
            ex.assume(spec.invariant(self, ex))
            ex.env.pop("__k", None)
            yield from self.exec_block(s.orelse, 0, ex)
        finally:
            self.sol.pop()


def _as_load(t):
    t2 = ast.parse(ast.unparse(t), mode="eval").body
    return t2


