"""Cython front end: a mechanical, line-oriented rewriter that turns the current
/repo/yarl/_quoting_c.pyx into Python text with the same statements, so that the same
symbolic executor walks it (DESIGN.md 3.7).  It runs on every check.

What the rewriting does -- and nothing else:
  * `cdef [inline] T f(T1 a, ...) [noexcept]:`  ->  `def f(a, ...):`          (types recorded)
  * `cdef T x [= e]`                             ->  `x = e` / dropped            (type recorded)
  * `cdef T x[N]` (array)                        ->  `x = [0] * N`
  * `cdef struct S:` / `cdef class C:`           ->  `class S:` / `class C:`; field declarations
                                                     become class attributes, array fields are
                                                     allocated at the start of __init__
  * `DEF N = e`                                  ->  `N = e`
  * `<T>e`                                       ->  `__cast__("T")(e)`
  * `&x`, `&x[0]`                                ->  `__addr__(x)`
  * typed parameters of def-functions lose their C type
  * `cimport` lines are dropped; `inline`, `noexcept` are dropped
  * an uninitialised scalar declaration `cdef T x` inside a function becomes `x = __uninit__("T")`
    (symbolically: any value)
  * a `for ch in <str>` loop whose variable is declared Py_UCS4 iterates over code points
The generated text is executed once in a namespace that provides Python stand-ins for the C
library names (memset, memcpy, sizeof, ord on code points, the CPython C-API functions), so
that module initialisation (the ALLOWED tables) and `_Quoter.__init__` run *concretely* and
give the engine the real tables of every configuration.
"""
from __future__ import annotations

import ast
import builtins
import os
import re
import sys
import types

CT = (r'(?:const\s+)?(?:unsigned\s+)?(?:Py_UCS4|Py_ssize_t|uint8_t|uint64_t|int|bint|char|str|list|void|'
      r'Writer|_Quoter)\s*\*?')


def _depth(s):
    return s.count('(') - s.count(')')


def _casts(s):
    s = re.sub(r'<\s*(' + CT + r')\s*>\s*\(', lambda m: f'__cast__("{m.group(1).strip()}")(', s)
    s = re.sub(r'<\s*(' + CT + r')\s*>\s*(-?\w[\w\.]*)', lambda m: f'__cast__("{m.group(1).strip()}")({m.group(2)})', s)
    return s


def rewrite(src):
    lines = src.split('\n')
    joined = []
    i = 0
    while i < len(lines):
        l = lines[i]
        if (re.match(r'\s*(cdef|def)\s', l) or re.match(r'\s*from \S+ cimport \(', l)) and _depth(l) > 0:
            acc = l
            while _depth(acc) > 0:
                i += 1
                acc += ' ' + lines[i].strip()
            joined.append(acc)
        else:
            joined.append(l)
        i += 1
    out = []
    types_ = {}
    ucs4_vars = set()
    cur_class = None
    cur_class_indent = None
    class_arrays = {}
    for l in joined:
        ind = re.match(r'\s*', l).group()
        s = l.strip()
        if cur_class is not None and s and len(ind) <= len(cur_class_indent) and not s.startswith('#'):
            cur_class = None
        if re.match(r'(from\s+\S+\s+)?cimport\b', s) or re.match(r'from \S+ cimport', s):
            out.append(ind + 'pass  # cimport dropped')
            continue
        if s.startswith('DEF '):
            out.append(ind + s[4:])
            continue
        m = re.match(r'cdef\s+struct\s+(\w+):', s)
        if m:
            out.append(ind + f'class {m.group(1)}:  # struct')
            cur_class, cur_class_indent = m.group(1), ind
            continue
        m = re.match(r'cdef\s+class\s+(\w+):', s)
        if m:
            out.append(ind + f'class {m.group(1)}:')
            cur_class, cur_class_indent = m.group(1), ind
            class_arrays[cur_class] = []
            continue
        m = re.match(r'cdef\s+(?:inline\s+)?(' + CT + r')\s*(\w+)\((.*)\)\s*(noexcept)?\s*:', s)
        if m:
            ret, name, params = m.group(1), m.group(2), m.group(3)
            ps = []
            for p in params.split(','):
                p = p.strip()
                if not p:
                    continue
                mm = re.match(r'(' + CT + r')\s*(\w+)(\[\])?$', p)
                if mm:
                    ps.append(mm.group(2))
                    types_[(name, mm.group(2))] = mm.group(1).strip() + (mm.group(3) or '')
                else:
                    ps.append(p)
            types_[(name, 'return')] = ret.strip()
            out.append(ind + f'def {name}({", ".join(ps)}):')
            continue
        m = re.match(r'cdef\s+(' + CT + r')\s*(\w+)\[([^\]]*)\]\s*$', s)
        if m:
            t, name, n = m.groups()
            types_[('array', name)] = t.strip()
            if cur_class is not None and len(ind) == len(cur_class_indent) + 4:
                class_arrays[cur_class].append((name, n))
                out.append(ind + f'{name} = None  # array field {t.strip()}[{n}]')
            else:
                out.append(ind + f'{name} = [0] * ({n})')
            continue
        m = re.match(r'cdef\s+(' + CT + r')\s*(\w+)\s*(=\s*(.*))?$', s)
        if m:
            t, name, _, init = m.groups()
            types_[('local', name)] = t.strip()
            if t.strip() == 'Py_UCS4':
                ucs4_vars.add(name)
            if init:
                out.append(ind + _casts(f'{name} = {init}'))
            elif cur_class is not None and len(ind) == len(cur_class_indent) + 4:
                out.append(ind + f'{name} = None  # field {t.strip()}')
            elif t.strip() == 'Writer':
                out.append(ind + f'{name} = Writer()')
            elif t.strip() in ('Py_ssize_t', 'int', 'bint', 'Py_UCS4', 'uint8_t', 'uint64_t', 'char') and '*' not in t:
                # an uninitialised C scalar: any value
                out.append(ind + f'{name} = __uninit__("{t.strip()}")')
            else:
                out.append(ind + f'pass  # decl {t.strip()} {name}')
            continue
        m = re.match(r'(' + CT + r')\s*(\w+)$', s)
        if m and cur_class is not None and len(ind) == len(cur_class_indent) + 4 and not s.startswith(('return', 'raise', 'pass', 'continue', 'break', 'else')):
            out.append(ind + f'{m.group(2)} = None  # field {m.group(1).strip()}')
            continue
        s2 = _casts(s)
        s2 = re.sub(r'&(\w+)\[0\]', r'__addr__(\1)', s2)
        s2 = re.sub(r'(?<![\w\)\]])&(\w+)', r'__addr__(\1)', s2)
        if re.match(r'def\s+\w+\(', s2):
            s2 = re.sub(r'\b(?:str|bint|int)\s+(\w+)\s*=', r'\1=', s2)
            s2 = re.sub(r'\(\s*(?:str)\s+(\w+)\s*\)', r'(\1)', s2)
        m = re.match(r'for (\w+) in (\w+):$', s2)
        if m and m.group(1) in ucs4_vars:
            s2 = f'for {m.group(1)} in __codepoints__({m.group(2)}):'
        out.append(ind + s2)
    text = '\n'.join(out)
    text = re.sub(r'pass  # cimport dropped\n(?:\s+\w+,?\n)+\)', 'pass', text)
    # allocate array fields at the start of __init__ of cdef classes
    for cls, arrs in class_arrays.items():
        if not arrs:
            continue
        pat = re.compile(r'(class ' + cls + r':.*?def __init__\([^)]*\):\n)', re.S)

        def add(m, arrs=arrs):
            alloc = ''.join(f'        self.{n} = [0] * ({k})\n' for n, k in arrs)
            return m.group(1) + alloc
        text = pat.sub(add, text, count=1)
    return text, types_


# ---------------------------------------------------------------- native stand-ins

class Ch(int):
    """a C character value: compares with a one-character string literal by code point (what the
    C compiler does with a character constant) -- used when rewritten functions are *run*"""

    @staticmethod
    def _o(x):
        return ord(x) if isinstance(x, str) else x

    def __eq__(self, o):
        return int(self) == Ch._o(o)

    def __ne__(self, o):
        return int(self) != Ch._o(o)

    def __lt__(self, o):
        return int(self) < Ch._o(o)

    def __le__(self, o):
        return int(self) <= Ch._o(o)

    def __gt__(self, o):
        return int(self) > Ch._o(o)

    def __ge__(self, o):
        return int(self) >= Ch._o(o)

    __hash__ = int.__hash__


def _namespace():
    def __cast__(t):
        t = t.replace('const', '').strip()

        def c(x):
            if isinstance(x, bool):
                x = int(x)
            if isinstance(x, int):
                if t == 'uint8_t':
                    return x % 256
                if t == 'Py_UCS4':
                    return x % (1 << 32)
                if t == 'uint64_t':
                    return x % (1 << 64)
                if t == 'char':
                    return x % 256
            return x
        return c

    def __addr__(x):
        return x

    def __uninit__(t):
        return 0

    def __codepoints__(s):
        return [builtins.ord(c) for c in s]

    def memset(dst, v, n):
        for i in range(n):
            dst[i] = v

    def memcpy(dst, src, n):
        for i in range(n):
            dst[i] = src[i]

    def sizeof(x):
        return len(x)

    def ord_(x):
        return x if isinstance(x, int) else builtins.ord(x)

    def chr_(x):
        return x if isinstance(x, str) else builtins.chr(x)

    ns = {"__cast__": __cast__, "__addr__": __addr__, "__uninit__": __uninit__, "__codepoints__": __codepoints__, "memset": memset,
          "memcpy": memcpy, "sizeof": sizeof, "ord": ord_, "chr": chr_, "NULL": None}
    for nm in ("PyErr_NoMemory", "PyMem_Free", "PyMem_Malloc", "PyMem_Realloc", "PyUnicode_DATA",
               "PyUnicode_DecodeASCII", "PyUnicode_GET_LENGTH", "PyUnicode_KIND",
               "PyUnicode_READ"):
        def stub(*a, _nm=nm):
            raise RuntimeError(f"C API stand-in {_nm} is only interpreted symbolically")
        stub.__name__ = nm
        stub.__qualname__ = nm
        ns[nm] = stub

    def PyUnicode_DecodeUTF8Stateful(buf, n, errors, consumed):
        raise RuntimeError("C API stand-in PyUnicode_DecodeUTF8Stateful is only interpreted symbolically")
    ns["PyUnicode_DecodeUTF8Stateful"] = PyUnicode_DecodeUTF8Stateful
    return ns


MODNAME = "yarl._quoting_c_pyx"


def load(repo=None):
    """rewrite the current .pyx, execute the result concretely, and register it as a module the
    engine can read (AST + globals).  Returns (module, text, types)."""
    from .engine import ModuleSrc
    repo = repo or os.environ.get("PYVC_REPO", "/repo")
    path = os.path.join(repo, "yarl", "_quoting_c.pyx")
    src = open(path).read()
    text, types_ = rewrite(src)
    mod = types.ModuleType(MODNAME)
    mod.__dict__.update(_namespace())
    mod.__file__ = path
    code = compile(text, path + " (rewritten)", "exec")
    exec(code, mod.__dict__)
    for v in mod.__dict__.values():
        if isinstance(v, types.FunctionType) and v.__module__ is None:
            v.__module__ = MODNAME
    sys.modules[MODNAME] = mod
    ms = ModuleSrc.__new__(ModuleSrc)
    ms.modname = MODNAME
    ms.path = path
    ms.src = text
    ms.tree = ast.parse(text, path)
    ms.funcs = {}
    for node in ms.tree.body:
        if isinstance(node, ast.FunctionDef):
            ms.funcs[node.name] = node
        elif isinstance(node, ast.ClassDef):
            for sub in node.body:
                if isinstance(sub, ast.FunctionDef):
                    ms.funcs.setdefault(f"{node.name}.{sub.name}", sub)
    ms.mod = mod
    ModuleSrc._cache[MODNAME] = ms
    mod.__pyx_types__ = types_
    mod.__pyx_text__ = text
    return mod, text, types_
