"""Lists of path segments that come from str.split(sep) and go back through sep.join(...).

The functions of yarl that take a path apart (raw_parts, raw_name, parent, _with_raw_name,
with_suffix, join) split the path at '/', drop / replace / append a few elements at either end and
join the list again.  Such a list is modelled *exactly at the string level* as a sequence of
chunks:

    ("e", x)    one element, the string x
    ("s", s)    all elements of s.split(sep)              (at least one element)
    ("sl", s)   all elements of s.split(sep)[:-1]         (possibly none)

Library contract of split/join that the model embodies (assumed, listed in the evidence):
  * s.split(sep) has 1 + (number of sep in s) elements, none of which contains sep;
    its last element is s[s.rfind(sep)+1:], its first is s[:s.find(sep)] (s itself if sep is absent);
  * sep.join(s.split(sep)) == s;   sep.join(s.split(sep)[:-1]) + sep == s[:s.rfind(sep)+1]
    (the empty string when sep does not occur);
  * sep.join(a + b) == sep.join(a) + sep + sep.join(b) for non-empty a, b.
Only the operations the code base uses are supported; anything else is Unsupported (exit 2).
"""
from __future__ import annotations

import z3

from . import values as V
from .values import VInt, VStr, Unsupported, lit


class VPList(V.V):
    """`rev`: the list denoted is the *reverse* of the chunk sequence (list.reverse() toggles it;
    _make_child builds its result back to front)"""

    def __init__(self, chunks, sep="/", fresh=True, rev=False):
        self.chunks = list(chunks)
        self.sep = sep
        self.fresh = fresh
        self.rev = rev

    def __repr__(self):
        return f"PList({'rev ' if self.rev else ''}{[(k, '...') for k, *_ in self.chunks]})"

    def copy(self, fresh=True):
        return VPList(self.chunks, self.sep, fresh, self.rev)


class Chunks:
    """marker used while a starred VPList is spliced into a tuple / list display"""

    def __init__(self, pl):
        self.pl = pl


def _rfind(ctx, s, sep):
    return V.find(ctx, s, lit(sep), reverse=True)


def _find(ctx, s, sep):
    return V.find(ctx, s, lit(sep))


def from_items(items, sep="/"):
    chunks = []
    for it in items:
        if isinstance(it, Chunks):
            chunks.extend(it.pl.chunks)
            sep = it.pl.sep
        elif isinstance(it, VStr):
            chunks.append(("e", it))
        else:
            raise Unsupported("non-string element next to a split list")
    return VPList(chunks, sep, fresh=True)


def truth(pl, ctx=None):
    if any(k in ("e", "s") for k, *_ in pl.chunks):
        return z3.BoolVal(True)
    if not pl.chunks:
        return z3.BoolVal(False)
    if ctx is None:
        raise Unsupported("truthiness of a possibly empty split list")
    # only split(...)[:-1] chunks: non-empty iff one of the texts has a separator
    return z3.Or([_find(ctx, x, pl.sep) >= 0 for _, x in pl.chunks])


def length(ctx, pl):
    """number of elements (an opaque count of separators per split chunk)"""
    total = V.iv(0)
    for k, *rest in pl.chunks:
        if k == "e":
            total = total + 1
        else:
            s = rest[0]
            key = ("sepcount", pl.sep, s.a.get_id(), z3.simplify(s.lo).get_id(), z3.simplify(s.hi).get_id())
            memo = getattr(ctx, "memo", None)
            if memo is None:
                memo = ctx.memo = {}
            if key not in memo:
                c = V.fresh_int("nsep")
                f = _find(ctx, s, pl.sep)
                ctx.add(c >= 0)
                ctx.add((c == 0) == (f < 0))
                memo[key] = c
            c = memo[key]
            total = total + (1 + c if k == "s" else c)
    return z3.simplify(total)


def last(ex, st, pl, node):
    if not pl.chunks:
        raise Unsupported("last element of an empty split list")
    k, x = pl.chunks[-1]
    if k == "e":
        yield x, st
    elif k == "s":
        r = _rfind(st.ctx, x, pl.sep)
        start = V.name_term(st.ctx, z3.If(r < 0, 0, r + 1), "ls")
        yield V.slice_(st.ctx, x, start, None), st
    else:
        raise Unsupported("last element of split(...)[:-1]")


def first(ex, st, pl, node):
    if not pl.chunks:
        raise Unsupported("first element of an empty split list")
    k, x = pl.chunks[0]
    if k == "e":
        yield x, st
    elif k == "s":
        f = _find(st.ctx, x, pl.sep)
        end = V.name_term(st.ctx, z3.If(f < 0, x.len(), f), "fe")
        yield V.slice_(st.ctx, x, V.iv(0), end), st
    else:
        # split(x)[:-1] may be empty: then the first element is the next chunk's
        f = _find(st.ctx, x, pl.sep)
        for b, s2 in ex.branch(st, f >= 0):
            if b:
                end = V.name_term(s2.ctx, f, "fe")
                yield V.slice_(s2.ctx, x, V.iv(0), end), s2
            else:
                rest = VPList(pl.chunks[1:], pl.sep)
                yield from first(ex, s2, rest, node)


def drop_last(pl):
    if not pl.chunks:
        return VPList([], pl.sep)
    k, x = pl.chunks[-1]
    if k == "e":
        return VPList(pl.chunks[:-1], pl.sep)
    if k == "s":
        return VPList(pl.chunks[:-1] + [("sl", x)], pl.sep)
    raise Unsupported("[:-1] of split(...)[:-1]")


def drop_first(pl):
    if not pl.chunks:
        return VPList([], pl.sep)
    k, x = pl.chunks[0]
    if k == "e":
        return VPList(pl.chunks[1:], pl.sep)
    raise Unsupported("[1:] of a split list")


def set_last(pl, v):
    pl.chunks = drop_last(pl).chunks + [("e", v)]


def set_first(pl, v):
    if not pl.chunks or pl.chunks[0][0] != "e":
        raise Unsupported("store to element 0 of a split list")
    pl.chunks = [("e", v)] + pl.chunks[1:]


def join(ex, st, pl, sep, node):
    """sep.join(pl) as a string"""
    if sep.conc != pl.sep:
        raise Unsupported("join with a separator other than the split separator")
    if getattr(pl, "rev", False):
        raise Unsupported("join of a reversed split list")
    ctx = st.ctx
    chunks = pl.chunks
    if not chunks:
        yield lit(""), st
        return
    # an "sl" chunk that is the last chunk and has predecessors needs a case split
    if chunks[-1][0] == "sl" and len(chunks) > 1:
        x = chunks[-1][1]
        r = _rfind(ctx, x, pl.sep)
        for b, s2 in ex.branch(st, r >= 0):
            if b:
                end = V.name_term(s2.ctx, r, "je")
                head = VPList(chunks[:-1] + [("e", V.slice_(s2.ctx, x, V.iv(0), end))], pl.sep)
            else:
                head = VPList(chunks[:-1], pl.sep)
            yield from join(ex, s2, head, sep, node)
        return
    parts = []
    n = len(chunks)
    for i, (k, x) in enumerate(chunks):
        lastc = i == n - 1
        if k == "e":
            parts.append(x)
            if not lastc:
                parts.append(sep)
        elif k == "s":
            parts.append(x)
            if not lastc:
                parts.append(sep)
        else:   # "sl"
            r = _rfind(ctx, x, pl.sep)
            if lastc:
                # alone: s[:max(r, 0)]
                end = V.name_term(ctx, z3.If(r < 0, 0, r), "je")
                parts.append(V.slice_(ctx, x, V.iv(0), end))
            else:
                # followed by an element: its text with the trailing separator is s[:r+1]
                end = V.name_term(ctx, r + 1, "je")
                parts.append(V.slice_(ctx, x, V.iv(0), end))
    yield V.concat(ctx, parts), st


# ---------------------------------------------------------------- operations on the denoted list (honouring `rev`)

def l_first(ex, st, pl, node):
    if pl.rev:
        yield from last(ex, st, VPList(pl.chunks, pl.sep), node)
    else:
        yield from first(ex, st, pl, node)


def l_last(ex, st, pl, node):
    if pl.rev:
        yield from first(ex, st, VPList(pl.chunks, pl.sep), node)
    else:
        yield from last(ex, st, pl, node)


def l_drop_first(pl):
    if pl.rev:
        r = drop_last(VPList(pl.chunks, pl.sep))
    else:
        r = drop_first(pl)
    return VPList(r.chunks, pl.sep, True, pl.rev)


def l_drop_last(pl):
    if pl.rev:
        r = drop_first(VPList(pl.chunks, pl.sep))
    else:
        r = drop_last(pl)
    return VPList(r.chunks, pl.sep, True, pl.rev)


def l_append(pl, v):
    if pl.rev:
        pl.chunks = [("e", v)] + pl.chunks
    else:
        pl.chunks = pl.chunks + [("e", v)]


def as_plist(v, like):
    """a concrete list of strings as a split list with the orientation of `like`"""
    from .values import VList, VTuple
    if isinstance(v, VPList):
        return v
    if isinstance(v, (VList, VTuple)) and all(isinstance(x, VStr) for x in v.items):
        items = list(v.items)
        if like.rev:
            items.reverse()
        return VPList([("e", x) for x in items], like.sep, True, like.rev)
    raise Unsupported("extending a split list with this value")


def l_extend(pl, other):
    """pl += other (in place)"""
    other = as_plist(other, pl)
    if other.rev != pl.rev:
        raise Unsupported("extending a split list with a list of the other orientation")
    if pl.rev:
        pl.chunks = other.chunks + pl.chunks
    else:
        pl.chunks = pl.chunks + other.chunks
