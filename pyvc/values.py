"""Value model of pyvc and the library contracts of str / int operations (DESIGN.md 3.4, 3.6).

A Python str is a *view* (A, lo, hi) over an SMT array of code points.  Every operation
below is the library contract of the corresponding CPython operation, stated over views:
it introduces fresh result variables together with ground facts and universally
quantified facts (closures) that over-approximate what CPython may return.  The same
contracts are conformance-tested against CPython (pyvc/conformance.py).
"""
from __future__ import annotations

import z3

from .smt import Ctx, fresh_int, fresh_bool, fresh_arr, iv, is_conc_int, arr_const, arr_ite

GLOBAL_FACTS = []  # ground facts about literal arrays (valid in every context)
_LITS = {}


class Unsupported(Exception):
    """construct outside the verified subset -> obligations of the function are undecided"""


class V:
    pass


class VNone(V):
    def __repr__(self):
        return "None"


NONE = VNone()


class VInt(V):
    def __init__(self, t):
        self.t = iv(t) if isinstance(t, int) else t

    def conc(self):
        return is_conc_int(self.t)

    def __repr__(self):
        return f"Int({self.t})"


class VBool(V):
    def __init__(self, t):
        self.t = z3.BoolVal(t) if isinstance(t, bool) else t

    def conc(self):
        t = z3.simplify(self.t)
        if z3.is_true(t):
            return True
        if z3.is_false(t):
            return False
        return None

    def __repr__(self):
        return f"Bool({self.t})"


class VStr(V):
    def __init__(self, a, lo, hi, conc=None, pieces=None, kind="str"):
        self.a = a
        self.lo = iv(lo) if isinstance(lo, int) else lo
        self.hi = iv(hi) if isinstance(hi, int) else hi
        self.conc = conc  # python str if fully concrete
        self.pieces = pieces
        self.kind = kind  # 'str' | 'bytes'
        self.tags = {}

    def len(self):
        if self.conc is not None:
            return iv(len(self.conc))
        return z3.simplify(self.hi - self.lo)

    def at(self, k_rel):
        return self.a[self.lo + k_rel]

    def __repr__(self):
        if self.conc is not None:
            return f"Str({self.conc!r})"
        return f"Str({self.a},{z3.simplify(self.lo)},{z3.simplify(self.hi)})"


class VTuple(V):
    def __init__(self, items):
        self.items = list(items)

    def __repr__(self):
        return f"Tuple{self.items}"


class VList(V):
    """list with a concrete number of (symbolic) elements"""

    def __init__(self, items, fresh=True):
        self.items = list(items)
        self.fresh = fresh

    def __repr__(self):
        return f"List{self.items}"


class VDict(V):
    def __init__(self, d=None, fresh=True):
        self.d = dict(d or {})
        self.fresh = fresh

    def __repr__(self):
        return f"Dict{self.d}"


class VObj(V):
    def __init__(self, cls, fields=None, fresh=True):
        self.cls = cls
        self.fields = dict(fields or {})
        self.fresh = fresh

    def __repr__(self):
        return f"Obj<{self.cls}>{self.fields}"


SEG_IDS = {"": 0, ".": 1, "..": 2}


def seg_id(text):
    """path segments are opaque values; the three that path algebra distinguishes have fixed ids"""
    if text not in SEG_IDS:
        SEG_IDS[text] = 3 + len(SEG_IDS)
    return SEG_IDS[text]


class VSeg(V):
    """one path segment (an opaque string value identified by an integer id)"""

    def __init__(self, t):
        self.t = iv(t) if isinstance(t, int) else t

    def __repr__(self):
        return f"Seg({self.t})"


class VSList(V):
    """a list of path segments of symbolic length: a mutable holder of a view over segment ids"""

    def __init__(self, view, fresh=True):
        self.view = view
        self.fresh = fresh

    def __repr__(self):
        return f"SegList({self.view})"


class VStream(V):
    """an output buffer that is only appended to inside a loop and read after it: its content is
    not stored; every emission is checked against the specification's step function and advances
    the ghost pointer of the simulation (DESIGN.md 4.2)"""

    def __init__(self, name, spec):
        self.name = name
        self.spec = spec
        self.fresh = True

    def __repr__(self):
        return f"Stream({self.name})"


class VSymCache(V):
    """the per-object memo of a URL that was not built in this activation: it may hold any of
    the known keys, each with the value its lazy accessor computes from the owner's parts
    (memo invariant, C08-O2).  `removed` keys are known absent, `extra` are explicit stores."""

    def __init__(self, owner, removed=None, extra=None):
        self.owner = owner
        self.removed = set(removed or ())
        self.extra = dict(extra or {})
        self.fresh = True        # the memo is in every method's frame

    def __repr__(self):
        return f"SymCache(-{sorted(self.removed)} +{sorted(self.extra)})"


class VConst(V):
    """an arbitrary concrete Python object (frozenset, class, module, compiled regex...)"""

    def __init__(self, obj):
        self.obj = obj

    def __repr__(self):
        return f"Const({self.obj!r})"


class VOpt(V):
    """value that is None when `isnone` holds and `val` otherwise (arises only from merging
    the two arms of a conditional; operations other than tests/equality split it again)"""

    def __init__(self, isnone, val):
        self.isnone = isnone
        self.val = val

    def __repr__(self):
        return f"Opt({self.isnone}?None:{self.val!r})"


class VExc(V):
    def __init__(self, cls, args=()):
        self.cls = cls
        self.args = args

    def __repr__(self):
        return f"Exc({self.cls.__name__})"


# ---------------------------------------------------------------- literals

def lit(text, kind="str"):
    key = (text, kind)
    v = _LITS.get(key)
    if v is None:
        a = fresh_arr("L")
        codes = list(text) if kind == "bytes" else [ord(c) for c in text]
        for i, c in enumerate(codes):
            GLOBAL_FACTS.append(a[i] == c)
        v = VStr(a, 0, len(codes), conc=text, kind=kind)
        _LITS[key] = v
    return v


def sym_str(ctx: Ctx, name, kind="str", maxcp=0x10FFFF):
    a = arr_const(name)
    n = z3.Int(name + "_len")
    ctx.add(n >= 0)
    s = VStr(a, 0, n, kind=kind)
    top = 255 if kind == "bytes" else maxcp
    ctx.addq(f"dom({name})", a, lambda k: z3.Implies(z3.And(0 <= k, k < n), z3.And(0 <= a[k], a[k] <= top)))
    ctx.bound(0, n - 1)
    return s


def fresh_str(ctx: Ctx, p="S", kind="str"):
    a = fresh_arr(p)
    n = fresh_int(p + "n")
    ctx.add(n >= 0)
    top = 255 if kind == "bytes" else 0x10FFFF
    s = VStr(a, 0, n, kind=kind)
    ctx.addq(f"dom({p})", a, lambda k: z3.Implies(z3.And(0 <= k, k < n), z3.And(0 <= a[k], a[k] <= top)))
    ctx.bound(0, n - 1)
    return s


def codes_of(v):
    """concrete code list of a concrete string value"""
    if v.kind == "bytes":
        return list(v.conc)
    return [ord(c) for c in v.conc]


def in_set(t, codes):
    """t (Int term) is one of `codes` -- compressed into ranges"""
    cs = sorted(set(codes))
    if not cs:
        return z3.BoolVal(False)
    rs = []
    start = prev = cs[0]
    for c in cs[1:]:
        if c == prev + 1:
            prev = c
            continue
        rs.append((start, prev))
        start = prev = c
    rs.append((start, prev))
    return z3.Or([t == a if a == b else z3.And(t >= a, t <= b) for a, b in rs])



def _is_simple(t):
    """int literal, uninterpreted constant, or constant +- literal"""
    if z3.is_int_value(t):
        return True
    if z3.is_const(t) and t.decl().kind() == z3.Z3_OP_UNINTERPRETED:
        return True
    if z3.is_add(t) and t.num_args() == 2:
        a, b = t.arg(0), t.arg(1)
        return (_is_simple(a) and z3.is_int_value(b)) or (_is_simple(b) and z3.is_int_value(a))
    return False


def name_term(ctx, t, p="t"):
    """SSA-style naming: a compound index term gets a fresh constant plus a defining
    equation, so that views never carry nested If-terms (which blow up exponentially)."""
    if isinstance(t, int):
        return iv(t)
    t = z3.simplify(t)
    if _is_simple(t):
        return t
    memo = getattr(ctx, "memo", None)
    if memo is None:
        memo = ctx.memo = {}
    key = ("name", t.get_id())
    v = memo.get(key)
    if v is None:
        v = fresh_int(p)
        ctx.add(v == t)
        ctx.bound(v)
        memo[key] = v
    return v


# ---------------------------------------------------------------- slicing

def norm_index(i, n, ctx=None):
    """Python slice index normalisation: negative -> +n, clamp to [0, n].  When the path
    context already proves 0 <= i <= n the index is used as it is (keeps views canonical)."""
    ci, cn = is_conc_int(i), is_conc_int(n)
    if ci is not None and cn is not None:
        j = ci + cn if ci < 0 else ci
        return iv(max(0, min(j, cn)))
    if ci is not None and ci == 0:
        return iv(0)
    sol = getattr(ctx, "sol", None)
    if sol is not None:
        if sol.check(z3.Not(z3.And(0 <= i, i <= n)), timeout_ms=500) == z3.unsat:
            return i
    if ci is not None and ci >= 0:
        return z3.If(i <= n, i, n)
    j = z3.If(i < 0, i + n, i)
    return z3.If(j < 0, 0, z3.If(j > n, n, j))


def intern_view(ctx, v: VStr):
    """View interning: if the path context proves that a new view has the same bounds as an
    existing view over the same array, the existing view is returned, so that library terms
    (find results, ...) computed for one are shared with the other (keeps code and
    specification syntactically aligned; purely an optimisation, sound by the solver's proof)."""
    if v.conc is not None:
        return v
    views = getattr(ctx, "views", None)
    if views is None:
        views = ctx.views = {}
    lst = views.setdefault(v.a.get_id(), [])
    lid, hid = v.lo.get_id(), v.hi.get_id()
    for w in lst:
        if w.lo.get_id() == lid and w.hi.get_id() == hid:
            return w
    sol = getattr(ctx, "sol", None)
    if sol is not None:
        cands = [w for w in lst if w.lo.get_id() == lid or w.hi.get_id() == hid]
        for w in cands[:6]:
            if sol.check(z3.Not(z3.And(w.lo == v.lo, w.hi == v.hi)), timeout_ms=400) == z3.unsat:
                sol.nintern = getattr(sol, "nintern", 0) + 1
                return w
    lst.append(v)
    return v


def slice_(ctx, s: VStr, lo=None, hi=None):
    n = s.len()
    if s.conc is not None:
        cl = None if lo is None else is_conc_int(lo)
        ch = None if hi is None else is_conc_int(hi)
        if (lo is None or cl is not None) and (hi is None or ch is not None):
            return lit(s.conc[cl:ch], s.kind)
    a = iv(0) if lo is None else name_term(ctx, norm_index(lo, n, ctx), "sl")
    if hi is None:
        b = n
    else:
        b = name_term(ctx, norm_index(hi, n, ctx), "sh")
        if lo is not None and not (is_conc_int(a) == 0):
            sol = getattr(ctx, "sol", None)
            if not (sol is not None and sol.check(b < a, timeout_ms=500) == z3.unsat):
                b = name_term(ctx, z3.If(b < a, a, b), "sh")
    return intern_view(ctx, VStr(s.a, name_term(ctx, s.lo + a, "lo"), name_term(ctx, s.lo + b, "hi"), kind=s.kind))


def char_at(ctx, s: VStr, i):
    """s[i] for an index known (obligation emitted by the caller) to be in range"""
    n = s.len()
    ci = is_conc_int(i)
    if s.conc is not None and ci is not None:
        return lit(s.conc[ci], s.kind) if s.kind == "str" else VInt(s.conc[ci])
    j = i if (ci is not None and ci >= 0) else name_term(ctx, z3.If(i < 0, i + n, i), "ix")
    p = name_term(ctx, s.lo + j, "ix")
    if s.kind == "bytes":
        return VInt(s.a[p])
    return VStr(s.a, p, name_term(ctx, p + 1, "ix"))


# ---------------------------------------------------------------- equality

def str_eq(ctx: Ctx, x: VStr, y: VStr):
    """Bool term for x == y (both directions defined, so usable in any polarity)."""
    if x.conc is not None and y.conc is not None:
        return z3.BoolVal(x.conc == y.conc and x.kind == y.kind)
    if x.a.get_id() == y.a.get_id():
        if z3.simplify(x.lo).get_id() == z3.simplify(y.lo).get_id() and z3.simplify(x.hi).get_id() == z3.simplify(y.hi).get_id():
            return z3.BoolVal(True)
    if x.pieces is not None and y.pieces is not None and len(x.pieces) == len(y.pieces) and \
            x.lo.get_id() == y.lo.get_id() and all(
                p.a.get_id() == q.a.get_id() and p.lo.get_id() == q.lo.get_id() and p.hi.get_id() == q.hi.get_id()
                and o1.get_id() == o2.get_id() for (o1, p), (o2, q) in zip(x.pieces, y.pieces)) and \
            z3.simplify(x.hi).get_id() == z3.simplify(y.hi).get_id():
        return z3.BoolVal(True)      # the same pieces concatenated in the same order
    if y.conc is None and x.conc is not None:
        x, y = y, x
    if y.conc is not None and len(y.conc) <= 12:
        cs = codes_of(y)
        return z3.And([x.len() == len(cs)] + [x.a[z3.simplify(x.lo + i)] == c for i, c in enumerate(cs)])
    key = ("eq", x.a.get_id(), z3.simplify(x.lo).get_id(), z3.simplify(x.hi).get_id(),
           y.a.get_id(), z3.simplify(y.lo).get_id(), z3.simplify(y.hi).get_id())
    memo = getattr(ctx, "memo", None)
    if memo is None:
        memo = ctx.memo = {}
    if key in memo:
        return memo[key]
    p = fresh_bool("eq")
    sk = fresh_int("sk")
    xl, yl = x.len(), y.len()
    ctx.add(z3.Implies(p, xl == yl))
    xa, xlo, xhi, ya, ylo, yhi = x.a, x.lo, x.hi, y.a, y.lo, y.hi
    ctx.addq("eq>", xa, lambda k: z3.Implies(z3.And(p, xlo <= k, k < xhi), xa[k] == ya[ylo + k - xlo]))
    ctx.addq("eq<", ya, lambda k: z3.Implies(z3.And(p, ylo <= k, k < yhi), ya[k] == xa[xlo + k - ylo]))
    ctx.add(z3.Implies(z3.Not(p), z3.Or(xl != yl, z3.And(xlo <= sk, sk < xhi, xa[sk] != ya[ylo + sk - xlo]))))
    ctx.bound(xlo, xhi - 1, ylo, yhi - 1, sk, ylo + sk - xlo)
    memo[key] = p
    return p


# ---------------------------------------------------------------- searching

def _needle_code(needle):
    if isinstance(needle, int):
        return iv(needle), None
    if isinstance(needle, VStr):
        if needle.conc is not None:
            if len(needle.conc) != 1:
                raise Unsupported(f"multi-character needle {needle.conc!r}")
            return iv(codes_of(needle)[0]), None
        # symbolic single character
        return needle.a[needle.lo], needle.len() == 1
    raise Unsupported("needle")


def find(ctx: Ctx, s: VStr, needle, start=None, end=None, reverse=False):
    """s.find(c[, start[, end]]) / s.rfind(c) for a single-character needle.
    Returns an Int term (index relative to s, or -1)."""
    c, side = _needle_code(needle)
    n = s.len()
    if s.conc is not None and z3.is_int_value(c) and start is None and end is None:
        ch = chr(c.as_long()) if s.kind == "str" else bytes([c.as_long()])
        return iv(s.conc.rfind(ch) if reverse else s.conc.find(ch))
    a0 = iv(0) if start is None else name_term(ctx, norm_index(start, n, ctx), "fs")
    b0 = n if end is None else name_term(ctx, norm_index(end, n, ctx), "fe")
    key = ("find", reverse, s.a.get_id(), z3.simplify(s.lo).get_id(), z3.simplify(s.hi).get_id(), c.get_id(),
           z3.simplify(a0).get_id(), z3.simplify(b0).get_id())
    memo = getattr(ctx, "memo", None)
    if memo is None:
        memo = ctx.memo = {}
    if key in memo:
        return memo[key]
    i = fresh_int("rf" if reverse else "f")
    A, lo = s.a, s.lo
    ctx.add(z3.Or(i == -1, z3.And(a0 <= i, i < b0, A[lo + i] == c)))
    if reverse:
        ctx.addq("rfind", A, lambda k: z3.Implies(z3.And(lo + z3.If(i == -1, a0 - 1, i) < k, k < lo + b0), A[k] != c))
    else:
        ctx.addq("find", A, lambda k: z3.Implies(z3.And(lo + a0 <= k, k < lo + z3.If(i == -1, b0, i)), A[k] != c))
    ctx.bound(lo + a0, lo + b0 - 1, lo + i, lo + i - 1, lo + i + 1)
    memo[key] = i
    return i


def first_of(ctx: Ctx, s: VStr, codes, start=None, negate=False):
    """spec primitive: smallest r in [start, len] with s[r] in `codes` (r == len if none);
    with negate: smallest r with s[r] NOT in codes (used by lstrip)."""
    n = s.len()
    a0 = iv(0) if start is None else name_term(ctx, norm_index(start, n, ctx), "fs")
    codes = tuple(sorted(set(codes)))
    key = ("first_of", negate, s.a.get_id(), z3.simplify(s.lo).get_id(), z3.simplify(s.hi).get_id(), codes,
           z3.simplify(a0).get_id())
    memo = getattr(ctx, "memo", None)
    if memo is None:
        memo = ctx.memo = {}
    if key in memo:
        return memo[key]
    r = fresh_int("fo")
    A, lo = s.a, s.lo

    def member(t):
        m = in_set(t, codes)
        return z3.Not(m) if negate else m
    ctx.add(a0 <= r, r <= n, z3.Or(r == n, member(A[lo + r])))
    ctx.addq("first_of", A, lambda k: z3.Implies(z3.And(lo + a0 <= k, k < lo + r), z3.Not(member(A[k]))))
    ctx.bound(lo + a0, lo + r, lo + r - 1, lo + n - 1)
    memo[key] = r
    return r


def all_in(ctx: Ctx, s: VStr, pred, name="all"):
    """Bool atom: every character of s satisfies pred (a function Int term -> Bool term)."""
    if s.conc is not None:
        cs = codes_of(s)
        return z3.simplify(z3.And([pred(iv(c)) for c in cs] + [z3.BoolVal(True)]))
    p = fresh_bool(name)
    sk = fresh_int("sk")
    A, lo, hi = s.a, s.lo, s.hi
    ctx.addq(name, A, lambda k: z3.Implies(z3.And(p, lo <= k, k < hi), pred(A[k])))
    ctx.add(z3.Implies(z3.Not(p), z3.And(lo <= sk, sk < hi, z3.Not(pred(A[sk])))))
    ctx.bound(lo, hi - 1, sk)
    return p


def contains_char(ctx, s, needle):
    return find(ctx, s, needle) >= 0


# ---------------------------------------------------------------- building

def concat(ctx: Ctx, parts, kind="str"):
    flat = []
    for p in parts:
        if p.conc is not None and len(p.conc) == 0:
            continue
        if p.pieces is not None and z3.simplify(p.lo).get_id() == iv(0).get_id():
            flat.extend(pp for _, pp in p.pieces)
        else:
            flat.append(p)
    if not flat:
        return lit("" if kind == "str" else b"", kind)
    if all(p.conc is not None for p in flat):
        if kind == "bytes":
            return lit(b"".join(p.conc for p in flat), kind)
        return lit("".join(p.conc for p in flat), kind)
    if len(flat) == 1:
        return flat[0]
    R = fresh_arr("C")
    off = iv(0)
    pieces = []
    for p in flat:
        ln = p.len()
        if p.conc is not None and len(p.conc) <= 8:
            for i, c in enumerate(codes_of(p)):
                ctx.add(R[z3.simplify(off + i)] == c)
        else:
            def mk(off=off, p=p, ln=ln):
                pa, plo = p.a, p.lo
                return lambda k: z3.Implies(z3.And(off <= k, k < off + ln), R[k] == pa[plo + k - off])

            def mk2(off=off, p=p, ln=ln):
                pa, plo, phi = p.a, p.lo, p.hi
                return lambda k: z3.Implies(z3.And(plo <= k, k < phi), pa[k] == R[off + k - plo])
            ctx.addq("copy>", R, mk())
            ctx.addq("copy<", p.a, mk2())
            ctx.bound(p.lo, p.hi - 1)
        ctx.bound(off, off + ln - 1)
        pieces.append((off, p))
        off = z3.simplify(off + ln)
    ctx.bound(off)
    return VStr(R, 0, off, pieces=pieces, kind=kind)


def ascii_lower_code(t):
    return z3.If(z3.And(t >= 65, t <= 90), t + 32, t)


def ascii_upper_code(t):
    return z3.If(z3.And(t >= 97, t <= 122), t - 32, t)


def is_ascii(ctx, s):
    if s.conc is not None:
        return z3.BoolVal(s.conc.isascii())
    return all_in(ctx, s, lambda t: t < 128, "isascii")


def lower(ctx: Ctx, s: VStr):
    """str.lower(): element-wise ASCII lower-casing when s is ASCII; otherwise the result is
    unconstrained (CPython may even change the length for non-ASCII text)."""
    if s.conc is not None:
        return lit(s.conc.lower())
    key = ("lower", s.a.get_id(), z3.simplify(s.lo).get_id(), z3.simplify(s.hi).get_id())
    memo = getattr(ctx, "memo", None)
    if memo is None:
        memo = ctx.memo = {}
    if key in memo:
        return memo[key]
    asc = is_ascii(ctx, s)
    r = fresh_str(ctx, "low")
    A, lo, n = s.a, s.lo, s.len()
    ctx.add(z3.Implies(asc, r.len() == n))
    ra = r.a
    ctx.addq("lower>", ra, lambda k: z3.Implies(z3.And(asc, 0 <= k, k < n), ra[k] == ascii_lower_code(A[lo + k])))
    ctx.addq("lower<", A, lambda k: z3.Implies(z3.And(asc, lo <= k, k < lo + n), ra[k - lo] == ascii_lower_code(A[k])))
    ctx.bound(n - 1, lo + n - 1)
    memo[key] = r
    r.tags["lower_of"] = s
    return r


def remove_char(ctx: Ctx, s: VStr, c: int):
    """s.replace(<one character>, ""): the result contains no c, is not longer than s and
    equals s when c does not occur.  (Which characters survive in which order is not
    needed by any contract: specification and code meet on the same library term.)"""
    if s.conc is not None:
        return lit(s.conc.replace(chr(c), ""))
    key = ("remove", s.a.get_id(), z3.simplify(s.lo).get_id(), z3.simplify(s.hi).get_id(), c)
    memo = getattr(ctx, "memo", None)
    if memo is None:
        memo = ctx.memo = {}
    if key in memo:
        return memo[key]
    r = fresh_str(ctx, "rm")
    n = s.len()
    ctx.add(r.len() <= n)
    ctx.addq("removed", r.a, lambda k: z3.Implies(z3.And(0 <= k, k < r.len()), r.a[k] != c))
    i = find(ctx, s, c)
    eq = str_eq(ctx, r, s)
    ctx.add(z3.Implies(i == -1, eq))
    # the result is a function of the *content* of s
    apps = getattr(ctx, "fn_apps", None)
    if apps is None:
        apps = ctx.fn_apps = []
    for (nm, s2, r2) in apps:
        if nm == ("remove", c):
            ctx.add(z3.Implies(str_eq(ctx, s, s2), str_eq(ctx, r, r2)))
    apps.append((("remove", c), s, r))
    r.tags["removed_from"] = (s, c, i)
    memo[key] = r
    return r


def itoa(ctx: Ctx, n):
    """str(n) / f'{n}' for an int: decimal digits, optional leading '-'"""
    c = is_conc_int(n)
    if c is not None:
        return lit(str(c))
    key = ("itoa", n.get_id())
    memo = getattr(ctx, "memo", None)
    if memo is None:
        memo = ctx.memo = {}
    if key in memo:
        return memo[key]
    r = fresh_str(ctx, "itoa")
    ln = r.len()
    ctx.add(ln >= 1)
    ctx.add(z3.Implies(n >= 0, z3.And(ln >= 1, z3.Implies(n <= 65535, ln <= 5), z3.Implies(n < 10, ln == 1))))
    ctx.addq("itoa-digits", r.a, lambda k: z3.Implies(z3.And(n >= 0, 0 <= k, k < ln), z3.And(r.a[k] >= 48, r.a[k] <= 57)))
    ctx.add(z3.Implies(n < 0, r.a[0] == 45))
    ctx.add(z3.Implies(z3.And(n >= 0, n < 10), r.a[0] == 48 + n))
    apps = getattr(ctx, "dec_apps", None)
    if apps is None:
        apps = ctx.dec_apps = []
    apps.append((r, n, n >= 0))
    r.tags["itoa_of"] = n
    memo[key] = r
    return r


def is_digit_code(t):
    udigit = z3.Function("UDIGIT", z3.IntSort(), z3.BoolSort())
    return z3.If(t < 128, z3.And(t >= 48, t <= 57), udigit(t))


def dec_value(ctx: Ctx, s: VStr):
    """decimal value of an all-ASCII-digit string; a function of the *content* of s."""
    if s.conc is not None:
        return iv(int(s.conc))
    key = ("dec", s.a.get_id(), z3.simplify(s.lo).get_id(), z3.simplify(s.hi).get_id())
    memo = getattr(ctx, "memo", None)
    if memo is None:
        memo = ctx.memo = {}
    if key in memo:
        return memo[key]
    v = fresh_int("dec")
    ctx.add(v >= 0)
    # single digit: value known
    ctx.add(z3.Implies(z3.And(s.len() == 1, s.a[s.lo] >= 48, s.a[s.lo] <= 57), v == s.a[s.lo] - 48))
    apps = getattr(ctx, "dec_apps", None)
    if apps is None:
        apps = ctx.dec_apps = []
    for (s2, v2, cond) in apps:
        ctx.add(z3.Implies(z3.And(cond, str_eq(ctx, s, s2)), v == v2))
    apps.append((s, v, z3.BoolVal(True)))
    memo[key] = v
    return v


def str_lt(ctx: Ctx, x: VStr, y: VStr):
    """x < y for strings: an opaque strict total order on string *contents* (library contract
    of str comparison: irreflexive, asymmetric, total, transitive; equal contents compare
    alike).  The axioms are instantiated for the strings compared on this path."""
    if x.conc is not None and y.conc is not None:
        return z3.BoolVal(x.conc < y.conc)
    def key(s):
        return ("c", s.conc) if s.conc is not None else (s.a.get_id(), z3.simplify(s.lo).get_id(), z3.simplify(s.hi).get_id())
    memo = getattr(ctx, "memo", None)
    if memo is None:
        memo = ctx.memo = {}
    k = ("lt", key(x), key(y))
    if k in memo:
        return memo[k]
    apps = getattr(ctx, "lt_apps", None)
    if apps is None:
        apps = ctx.lt_apps = []
    strs = getattr(ctx, "lt_strs", None)
    if strs is None:
        strs = ctx.lt_strs = []

    def atom(a, b):
        kk = ("lt", key(a), key(b))
        if kk not in memo:
            memo[kk] = fresh_bool("lt")
        return memo[kk]
    new = [s for s in (x, y) if not any(key(s) == key(t) for t in strs)]
    for s in new:
        strs.append(s)
    # axioms over every pair / triple that involves a newly seen string
    for a in strs:
        for b in strs:
            if not (any(a is n for n in new) or any(b is n for n in new)):
                continue
            if key(a) == key(b):
                ctx.add(z3.Not(atom(a, b)))
                continue
            e = str_eq(ctx, a, b)
            ctx.add(z3.Implies(e, z3.And(z3.Not(atom(a, b)), z3.Not(atom(b, a)))))
            ctx.add(z3.Implies(z3.Not(e), z3.Xor(atom(a, b), atom(b, a))))
    if len(strs) <= 8:
        for a in strs:
            for b in strs:
                for c in strs:
                    if len({key(a), key(b), key(c)}) == 3 and (any(a is n or b is n or c is n for n in new)):
                        ctx.add(z3.Implies(z3.And(atom(a, b), atom(b, c)), atom(a, c)))
                        ctx.add(z3.Implies(str_eq(ctx, a, b), atom(a, c) == atom(b, c)))
                        ctx.add(z3.Implies(str_eq(ctx, a, b), atom(c, a) == atom(c, b)))
    return atom(x, y)


def hash_of(ctx: Ctx, parts):
    """hash(<tuple of strings>): an opaque function of the contents of the components"""
    memo = getattr(ctx, "memo", None)
    if memo is None:
        memo = ctx.memo = {}
    def key(s):
        return ("c", s.conc) if s.conc is not None else (s.a.get_id(), z3.simplify(s.lo).get_id(), z3.simplify(s.hi).get_id())
    k = ("hash",) + tuple(key(s) for s in parts)
    if k in memo:
        return memo[k]
    h = fresh_int("hash")
    apps = getattr(ctx, "hash_apps", None)
    if apps is None:
        apps = ctx.hash_apps = []
    for parts2, h2 in apps:
        if len(parts2) == len(parts):
            ctx.add(z3.Implies(z3.And([str_eq(ctx, a, b) for a, b in zip(parts, parts2)]), h == h2))
    apps.append((list(parts), h))
    memo[k] = h
    return h
