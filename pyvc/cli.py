"""bin/check <PROPERTY> [--tier quick|thorough]

Re-reads /repo, regenerates every verification condition of the contracts that carry the
property, discharges them (16-process pool), replays counterexamples on the real code and
writes /verif/evidence/<PROPERTY>.json.

exit 0  every obligation discharged (known findings aside)
exit 1  an obligation is refuted: prints  VIOLATION property=<id> replay=<path>
exit 2  undecided (solver unknown / construct outside the subset) -- never a VIOLATION line
exit 3  checker error
"""
from __future__ import annotations

import argparse
import importlib
import itertools
import json
import multiprocessing as mp
import os
import sys
import time
import traceback

ROOT = os.path.dirname(os.path.dirname(os.path.abspath(__file__)))
sys.path.insert(0, ROOT)


def _task(args):
    qual, combo_i, seg, timeout_ms, shard = args
    try:
        from contracts.registry import CONTRACTS
        from pyvc import verify
        c = CONTRACTS[qual]
        if isinstance(c, verify.Lemma):
            r = verify.verify_contract(c, CONTRACTS, combo_filter=[combo_i], timeout_ms=timeout_ms)
        else:
            r = verify.verify_contract(c, CONTRACTS, combo_filter=[combo_i], seg_filter=[seg], timeout_ms=timeout_ms,
                                       shard=shard)
        r["task"] = [qual, combo_i, seg, shard]
        return r
    except Exception as e:  # checker error
        return {"task": [qual, combo_i, seg, shard], "error": f"{type(e).__name__}: {e}", "trace": traceback.format_exc(),
                "obligations": [], "unsupported": [], "function": qual}


def plan_tasks(contracts, timeout_ms):
    from pyvc import verify
    tasks = []
    for c in contracts:
        alts = [verify.make_param(None, n, t) for n, t in c.params]
        ncombo = len(list(itertools.product(*alts)))
        nseg = len(c.cuts) + 1
        k = getattr(c, "shards", 1) or 1
        for ci in range(ncombo):
            for seg in range(nseg):
                for sh in range(k):
                    tasks.append((c.qual, ci, seg, timeout_ms, (sh, k) if k > 1 else None))
    return tasks


def main(argv=None):
    ap = argparse.ArgumentParser()
    ap.add_argument("prop")
    ap.add_argument("--tier", default=os.environ.get("VERIF_TIER", "quick"), choices=["quick", "thorough"])
    ap.add_argument("--jobs", type=int, default=int(os.environ.get("VERIF_JOBS", "16")))
    ap.add_argument("--write-baseline", action="store_true",
                    help="record which obligations discharge (run on the pinned tree only; the file is committed)")
    a = ap.parse_args(argv)
    try:
        import faulthandler
        import signal
        faulthandler.register(signal.SIGUSR1, all_threads=False)     # kill -USR1 <pid>: where is it?
    except (ImportError, AttributeError, ValueError):
        pass
    seed = int(os.environ.get("VERIF_SEED", "0") or 0)
    t0 = time.time()
    os.chdir(ROOT)
    from pyvc import report
    try:
        from contracts.registry import CONTRACTS
        from contracts import finite
        from contracts import static_c08  # noqa: F401  (registers its obligations)
        from contracts import finite_c  # noqa: F401
        from contracts import finite_policy  # noqa: F401
        from contracts import bounded_rds  # noqa: F401
        from contracts import finite_host  # noqa: F401
        from contracts import bounded  # noqa: F401
        from contracts import finite_pairing  # noqa: F401
        from contracts import finite_unquote  # noqa: F401
    except Exception:
        traceback.print_exc()
        print(f"CHECKER-ERROR property={a.prop}: contracts could not be loaded")
        return 3
    contracts = [c for c in CONTRACTS.values() if a.prop in c.props
                 and (getattr(c, "tier", None) in (None, a.tier) or os.environ.get("VERIF_ALL_TIERS"))]
    timeout_ms = 10000 if a.tier == "quick" else 60000
    tasks = plan_tasks(contracts, timeout_ms)
    results = []
    if tasks:
        with mp.get_context("fork").Pool(min(a.jobs, len(tasks)), maxtasksperchild=1) as pool:   # every task starts from the same process image: reproducible
            for r in pool.imap_unordered(_task, tasks):
                results.append(r)
    # finite / DFA / static obligations registered for this property
    extra = finite.run(a.prop, a.tier, seed) if hasattr(finite, "run") else []
    return report.finish(a.prop, a.tier, seed, contracts, results, extra, t0, write_baseline=a.write_baseline)


if __name__ == "__main__":
    sys.exit(main())
