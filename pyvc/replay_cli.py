"""bin/replay <file>: re-run the failing call recorded in a replay file on the current tree.
exit 1 if the real function still disagrees with its specification, 0 if it agrees."""
import json
import os
import sys

ROOT = os.path.dirname(os.path.dirname(os.path.abspath(__file__)))
sys.path.insert(0, ROOT)


def main():
    rep = json.load(open(sys.argv[1]))
    print("property:", rep.get("property"), "obligation:", rep.get("obligation"))
    call = rep.get("replay_call")
    if not call or call.get("args") is None:
        print("no failing input was found for this obligation; solver output:", rep.get("solver_output"))
        return 2
    from contracts.registry import CONTRACTS
    from pyvc import replay
    c = CONTRACTS.get(call["function"])
    if c is None:
        print("function not under contract any more:", call["function"])
        return 2
    j = replay.judge(c, call["args"])
    print("call:", call["function"], json.dumps(call["args"], ensure_ascii=True))
    print("real code:", j["real"])
    print("specification:", j["spec"])
    print("agrees:", j["agrees"])
    return 0 if j["agrees"] else 1


if __name__ == "__main__":
    sys.exit(main())
