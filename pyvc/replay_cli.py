"""bin/replay <file>: re-run the failing call recorded in a replay file on the current tree.
exit 1 if the real function still disagrees with its specification, 0 if it agrees."""
import json
import os
import sys

ROOT = os.path.dirname(os.path.dirname(os.path.abspath(__file__)))
sys.path.insert(0, ROOT)


def main():
    rep = json.load(open(sys.argv[1]))
    print("property:", rep.get("property"), "obligation:", rep.get("obligation"))
    call = rep.get("replay_call")
    if not call or call.get("args") is None:
        print("no failing input was found for this obligation; solver output:", rep.get("solver_output"))
        return 2
    if rep.get("bounded_check"):
        # a failing case of a bounded stand-in: run the stand-in again on the current tree and look for it
        from contracts import bounded
        hits, errs = bounded.replay_bounded(rep["bounded_check"], call["args"])
        print("stand-in:", rep["bounded_check"], "input:", json.dumps(call["args"], ensure_ascii=True))
        if errs:
            print("worker error:", errs[0][-500:])
            return 2
        if hits:
            h = hits[0]
            print("still fails (" + str(h.get("backend")) + " back end):", h.get("what"))
            print("observed:", h.get("observed"))
            print("expected:", h.get("expected"))
            return 1
        print("the recorded input no longer fails on the current tree")
        return 0
    if rep.get("finite_obligation"):
        print("finite / static obligation: the recorded input is", json.dumps(call["args"], ensure_ascii=True, default=repr))
        print("observed when it was recorded:", json.dumps(rep.get("observed_vs_expected"), ensure_ascii=True, default=repr)[:600])
        print("re-run  bin/check", rep.get("property"), " to evaluate the obligation on the current tree (it is exhaustive)")
        return 2
    from contracts.registry import CONTRACTS
    from pyvc import replay
    c = CONTRACTS.get(call["function"])
    if c is None:
        print("function not under contract any more:", call["function"])
        return 2
    j = replay.judge(c, call["args"])
    print("call:", call["function"], json.dumps(call["args"], ensure_ascii=True))
    print("real code:", j["real"])
    print("specification:", j["spec"])
    print("agrees:", j["agrees"])
    return 0 if j["agrees"] else 1


if __name__ == "__main__":
    sys.exit(main())
