"""Symbolic meaning of the C-level names the rewritten _quoting_c.pyx uses (DESIGN.md 3.7):
casts, the CPython unicode accessors, the bit tables, and the abstract contract of
_write_char (one emission into the output stream, or allocation failure)."""
from __future__ import annotations

import z3

from . import values as V
from .smt import fresh_bool, fresh_int, fresh_arr, iv
from .values import NONE, VBool, VConst, VExc, VInt, VList, VNone, VObj, VStr, VTuple, Unsupported, lit


def _code(ex, v):
    if isinstance(v, VInt):
        return v.t
    if isinstance(v, VBool):
        return z3.If(v.t, 1, 0)
    if isinstance(v, VStr) and ex.is_char(v):
        return ex.char_code(v)
    raise Unsupported(f"C integer value of {v!r}")


def p_cast(ex, st, args, kwargs, node):
    t = args[0].conc.replace("const", "").strip()
    from .engine import Prim

    def do(ex2, st2, a, kw, nd):
        x = a[0]
        if t in ("uint8_t", "char", "Py_UCS4", "uint64_t", "int", "Py_ssize_t") and isinstance(x, (VInt, VBool, VStr)) \
                and not (isinstance(x, VStr) and not ex2.is_char(x)):
            c = _code(ex2, x)
            w = {"uint8_t": 8, "char": 8, "Py_UCS4": 32, "uint64_t": 64}.get(t)
            if w is None:
                yield VInt(c), st2          # signed: value kept (no-overflow is an assumption, DESIGN 8.6)
                return
            cc = V.is_conc_int(c) if hasattr(V, "is_conc_int") else None
            yield VInt(V.name_term(st2.ctx, c % (2 ** w), "cast")), st2
            return
        yield x, st2
    yield Prim(f"cast<{t}>", do), st


def p_addr(ex, st, args, kwargs, node):
    yield args[0], st


def p_data(ex, st, args, kwargs, node):
    yield VObj("PyData", {"str": args[0]}, fresh=False), st


def p_kind(ex, st, args, kwargs, node):
    yield VInt(1), st


def p_get_length(ex, st, args, kwargs, node):
    yield VInt(args[0].len()), st


def p_read(ex, st, args, kwargs, node):
    data, idx = args[1], args[2]
    if not (isinstance(data, VObj) and data.cls == "PyData"):
        raise Unsupported("PyUnicode_READ on unknown data")
    s = data.fields["str"]
    ok = z3.And(idx.t >= 0, idx.t < s.len())
    ex.oblige(st, "PyUnicode_READ-in-bounds", "safety", ok, node, {"exception": "out-of-bounds read"})
    if not st.guards:
        st.ctx.assume(ok)
    yield VInt(s.a[V.name_term(st.ctx, s.lo + idx.t, "rd")]), st


def p_decode_ascii(ex, st, args, kwargs, node):
    spec = getattr(ex, "cur_writer_spec", None)
    if spec is None or spec.stream_result is None:
        raise Unsupported("PyUnicode_DecodeASCII outside a writer contract")
    yield spec.stream_result(ex, st, None), st


def bit_at_contract(ex, st, args, kwargs, node):
    """bit_at(table, ch) for a concrete table: ch is one of the code points whose bit is set
    (requires 0 <= ch < 8 * len(table): an in-bounds obligation)"""
    table, ch = args
    if not isinstance(table, VList) or any(x.conc() is None for x in table.items):
        raise Unsupported("bit_at on a symbolic table")
    bits = [i for i in range(8 * len(table.items)) if table.items[i >> 3].conc() & (1 << (i & 7))]
    c = _code(ex, ch)
    ok = z3.And(c >= 0, c < 8 * len(table.items))
    ex.oblige(st, "bit_at-index-in-table", "safety", ok, node, {"exception": "out-of-bounds read"})
    yield VBool(V.in_set(c, bits)), st


def write_char_contract(ex, st, args, kwargs, node):
    """_write_char(writer, ch, changed): either the character is appended to the output (one
    emission, changed flag or-ed in) and 0 is returned, or the buffer could not grow:
    MemoryError is set, nothing is written and -1 is returned (proved for the function itself
    by the Writer obligations, C19)."""
    from .engine import Raised
    writer, ch, changed = args
    other = st.fork()
    ex.sol.push()
    try:
        stream = writer.fields.get("__stream__")
        if stream is None:
            raise Unsupported("_write_char outside a writer loop")
        c = _code(ex, ch)
        for s2 in stream.spec.emit(ex, st, stream, [VInt(c)], node):
            w = s2.tr(writer)
            old = w.fields["changed"]
            oldt = old.t if isinstance(old, VInt) else z3.If(old.t, 1, 0)
            cht = changed.t if isinstance(changed, VBool) else (changed.t != 0)
            w.fields["changed"] = VInt(V.name_term(s2.ctx, z3.If(z3.Or(oldt != 0, cht), 1, 0), "chg"))
            yield VInt(0), s2
    finally:
        ex.sol.pop()
    ex.sol.push()
    try:
        other.pending_exc = MemoryError
        other.assume(V.fresh_bool("alloc_fails") if False else z3.BoolVal(True))
        yield VInt(-1), other
    finally:
        ex.sol.pop()


def _emit_unit(ex, st, writer, unit_items, changed_term, node):
    """emit a whole unit (several characters) through the writer's stream; yields states"""
    stream = writer.fields.get("__stream__")
    if stream is None:
        raise Unsupported("write outside a writer loop")

    def go(s, i):
        if i == len(unit_items):
            yield s
            return
        for s2 in stream.spec.emit(ex, s, stream, [unit_items[i]], node):
            yield from go(s2, i + 1)
    for s2 in go(st, 0):
        w = s2.tr(writer)
        old = w.fields["changed"]
        oldt = old.t if isinstance(old, VInt) else z3.If(old.t, 1, 0)
        w.fields["changed"] = VInt(V.name_term(s2.ctx, z3.If(z3.Or(oldt != 0, changed_term), 1, 0), "chg"))
        yield s2


def _hexch(d):
    return z3.If(d < 10, d + 48, d + 55)


def write_pct_contract(ex, st, args, kwargs, node):
    """_write_pct(writer, ch, changed) for 0 <= ch < 256: appends '%', hex(ch >> 4), hex(ch & 15)
    (upper case) and or-s `changed` into the flag, returning 0 -- or fails with -1 / MemoryError.
    Justified for the function itself by the exhaustive obligation over all 256 x 2 arguments
    (contracts/finite_c.py) and by the Writer obligations for the failure branch."""
    writer, ch, changed = args
    c = _code(ex, ch)
    ex.oblige(st, "_write_pct-argument-is-a-byte", "safety", z3.And(c >= 0, c < 256), node, {})
    other = st.fork()
    ex.sol.push()
    try:
        cht = changed.t if isinstance(changed, VBool) else (changed.t != 0)
        items = [VInt(37), VInt(V.name_term(st.ctx, _hexch(c / 16), "hx")), VInt(V.name_term(st.ctx, _hexch(c % 16), "hx"))]
        for s2 in _emit_unit(ex, st, writer, items, cht, node):
            yield VInt(0), s2
    finally:
        ex.sol.pop()
    ex.sol.push()
    try:
        other.pending_exc = MemoryError
        yield VInt(-1), other
    finally:
        ex.sol.pop()


def write_utf8_contract(ex, st, args, kwargs, node):
    """_write_utf8(writer, symbol): appends the percent-encoded UTF-8 bytes of the code point
    (nothing for a lone surrogate) and sets the changed flag -- or fails with -1.  Justified for
    the function itself by the exhaustive obligation over all 1 114 112 code points."""
    from contracts import spec_quote
    from .verify import call_spec
    from .engine import Raised
    writer, symbol = args
    c = VInt(_code(ex, symbol))
    other = st.fork()
    ex.sol.push()
    try:
        for unit, s1 in call_spec(ex, st, ex.wrap(spec_quote.utf8_unit), [c], {}, node):
            if isinstance(unit, Raised):
                raise Unsupported("utf8_unit raised")
            for s2 in _emit_unit(ex, s1, s1.tr(writer), list(unit.items), z3.BoolVal(True), node):
                yield VInt(0), s2
    finally:
        ex.sol.pop()
    ex.sol.push()
    try:
        other.pending_exc = MemoryError
        yield VInt(-1), other
    finally:
        ex.sol.pop()


def _find_writer(st, writer):
    # after a fork the writer object is a clone reachable through the frames
    env = st.env
    while env is not None:
        for v in env.values():
            if isinstance(v, VObj) and v.cls == "Writer":
                return v
        env = env.get("__caller_env__")
    return writer


def do_quote_contract(ex, st, args, kwargs, node):
    """_do_quote(self, val, length, kind, data, writer) seen from a caller: obligations that the
    call meets the function's precondition (the proof of _do_quote starts from exactly this
    state): length is len(val), data/kind are val's, and the writer is freshly initialised (static
    BUFFER, size BUF_SIZE, pos 0, changed 0).  Effects: the writer afterwards satisfies the Writer
    invariant kept by _write_char (its block is the static BUFFER or one live heap block) -- all
    writes to the writer in _do_quote/_write_pct/_write_utf8 go through _write_char (static
    obligation in contracts/finite_c.py); the result is the quoted text (stream simulation) or
    MemoryError is raised."""
    from .engine import Raised
    from .values import VExc
    self_, val, length, kind, data, writer = args
    ex.oblige(st, "_do_quote-pre:length-is-len(val)", "pre", length.t == val.len(), node, {})
    ok_data = isinstance(data, VObj) and data.cls == "PyData" and data.fields["str"] is val
    ex.oblige(st, "_do_quote-pre:data-is-val's-buffer", "pre", z3.BoolVal(bool(ok_data)), node, {})
    blk = writer.fields.get("buf")
    is_buf = isinstance(blk, VObj) and blk.cls == "Block" and bool(blk.fields.get("is_BUFFER"))
    init = [z3.BoolVal(is_buf)]
    for f, want in (("size", 8192), ("pos", 0), ("changed", 0)):
        v = writer.fields.get(f)
        if isinstance(v, VBool):
            init.append(v.t == (want != 0))
        elif isinstance(v, VInt):
            init.append(v.t == want)
        else:
            init.append(z3.BoolVal(False))
    ex.oblige(st, "_do_quote-pre:writer-freshly-initialised", "pre", z3.And(init), node, {})
    st.ghost["quoted"] = VBool(True)
    # post-state of the writer: WINV
    static = fresh_bool("dq_static")
    k = fresh_int("dq_k")
    st.ctx.add(k >= 1)
    st.ctx.add(static == (k == 1))
    nb = VObj("Block", {"mem": VConst(fresh_arr("dq_mem")), "size": VInt(8192 * k), "static": VBool(static)}, fresh=True)
    writer.fields["buf"] = nb
    writer.fields["size"] = VInt(8192 * k)
    writer.fields["pos"] = VInt(fresh_int("dq_pos"))
    writer.fields["changed"] = VInt(fresh_int("dq_chg"))
    st.ghost["live"] = VInt(st.ghost.get("live", VInt(0)).t + z3.If(static, 0, 1))
    other = st.fork()
    ex.sol.push()
    try:
        q = self_.obj
        from contracts import spec_quote
        name = spec_quote.INSTANCE_NAME[id(q)]
        codes = [ord(c) for c in spec_quote.out_alphabet(name)]
        r = V.fresh_str(st.ctx, "quoted")
        A, lo, hi = r.a, r.lo, r.hi
        st.ctx.addq("alphabet", A, lambda j: z3.Implies(z3.And(lo <= j, j < hi), V.in_set(A[j], codes)))
        yield r, st
    finally:
        ex.sol.pop()
    ex.sol.push()
    try:
        yield Raised(VExc(MemoryError)), other
    finally:
        ex.sol.pop()


def p_uninit(ex, st, args, kwargs, node):
    yield VInt(fresh_int("uninit")), st


def p_decode_utf8_stateful(ex, st, args, kwargs, node):
    """PyUnicode_DecodeUTF8Stateful(buffer, n, NULL, &consumed) for n in 1..4 bytes: the same
    library contract as the incremental decoder (pyvc/lib.py:_utf8_status): a complete well-formed
    sequence gives the character and consumed == n; a held-back prefix gives '' and consumed == 0;
    otherwise UnicodeDecodeError"""
    import ast as _ast
    from . import lib
    from .engine import Raised
    buf, n = args[0], args[1]
    nc = n.conc() if isinstance(n, VInt) else None
    if not isinstance(buf, VList) or nc is None or not (1 <= nc <= 4) or nc > len(buf.items):
        raise Unsupported("PyUnicode_DecodeUTF8Stateful on this buffer / length")
    out_name = None
    a3 = node.args[3] if len(node.args) > 3 else None
    if isinstance(a3, _ast.Call) and a3.args and isinstance(a3.args[0], _ast.Name):
        out_name = a3.args[0].id
    if out_name is None:
        raise Unsupported("PyUnicode_DecodeUTF8Stateful without &consumed")
    bs = [_code(ex, x) for x in buf.items[:nc]]
    complete, prefix, cp = lib._utf8_status(bs)
    for kind, s2 in ex.raise_or_oblige(st, UnicodeDecodeError, z3.Or(complete, prefix), "utf-8-decodable", node):
        if kind != "ok":
            yield Raised(VExc(UnicodeDecodeError)), s2
            continue
        for b, s3 in ex.branch(s2, complete):
            if b:
                r = V.fresh_str(s3.ctx, "dec")
                s3.ctx.add(r.len() == 1, r.a[0] == V.name_term(s3.ctx, cp, "cp"))
                s3.env[out_name] = VInt(nc)
                yield VStr(r.a, 0, 1), s3
            else:
                s3.env[out_name] = VInt(0)
                yield lit(""), s3


def inner_call_contract(tag):
    """_Quoter._do_quote_or_skip / _Unquoter._do_unquote seen from __call__: the result is *the*
    result of that method on these arguments (an opaque function of the instance and the text; the
    method has its own contract), or MemoryError for the quoter"""
    def fn(ex, st, args, kwargs, node):
        from .engine import Raised
        from .lib import _memo, _skey
        self_, val = args[0], args[1]
        if not isinstance(val, VStr):
            raise Unsupported(f"{tag} applied to a non-str")
        key = ("inner-call", tag, id(getattr(self_, "obj", self_))) + _skey(val)
        m = _memo(st.ctx)
        if key not in m:
            m[key] = V.fresh_str(st.ctx, tag)
        yield m[key], st
    return fn


def install(ex, mod):
    from .engine import Prim
    reg = ex.native_by_id

    def add(name, fn):
        obj = mod.__dict__[name]
        reg[id(obj)] = Prim("c." + name, fn)
    add("__cast__", p_cast)
    add("__addr__", p_addr)
    add("PyUnicode_DATA", p_data)
    add("PyUnicode_KIND", p_kind)
    add("PyUnicode_GET_LENGTH", p_get_length)
    add("PyUnicode_READ", p_read)
    add("PyUnicode_DecodeASCII", p_decode_ascii)
    add("PyUnicode_DecodeUTF8Stateful", p_decode_utf8_stateful)
    add("__uninit__", p_uninit)
    ex.c_semantics = True
    install_memory(ex, mod)
    buffer_blk = VObj("Block", {"mem": VConst(fresh_arr("BUFFER")),
                                "size": VInt(mod.__dict__["BUF_SIZE"]), "static": VBool(True), "is_BUFFER": True}, fresh=False)
    reg[id(mod.__dict__["BUFFER"])] = buffer_blk


# ---------------------------------------------------------------- memory model for the Writer (C19)

def new_block(ctx, size_term, static=False, name="blk"):
    from .smt import fresh_arr
    return VObj("Block", {"mem": VConst(fresh_arr(name)), "size": VInt(size_term), "static": VBool(static)}, fresh=True)


def p_malloc(ex, st, args, kwargs, node):
    """PyMem_Malloc(n): NULL, or a fresh block of n bytes (one more live heap block)"""
    n = args[0]
    other = st.fork()
    ex.sol.push()
    try:
        st.ghost["live"] = VInt(st.ghost.get("live", VInt(0)).t + 1)
        yield new_block(st.ctx, n.t), st
    finally:
        ex.sol.pop()
    ex.sol.push()
    try:
        yield NONE, other
    finally:
        ex.sol.pop()


def p_realloc(ex, st, args, kwargs, node):
    """PyMem_Realloc(p, n): NULL (p untouched and still owned), or a fresh block of n bytes whose
    first min(old, n) bytes are p's; p is gone"""
    p, n = args
    if not (isinstance(p, VObj) and p.cls == "Block"):
        raise Unsupported("realloc of non-block")
    ex.oblige(st, "realloc-of-a-live-heap-block", "safety", z3.Not(p.fields["static"].t), node, {"exception": "invalid realloc"})
    other = st.fork()
    ex.sol.push()
    try:
        nb = new_block(st.ctx, n.t)
        old, new = p.fields["mem"].obj, nb.fields["mem"].obj
        osz = p.fields["size"].t
        st.ctx.addq("realloc-copy", new, lambda k: z3.Implies(z3.And(0 <= k, k < osz, k < n.t), new[k] == old[k]))
        yield nb, st
    finally:
        ex.sol.pop()
    ex.sol.push()
    try:
        yield NONE, other
    finally:
        ex.sol.pop()


def p_free(ex, st, args, kwargs, node):
    p = args[0]
    if not (isinstance(p, VObj) and p.cls == "Block"):
        raise Unsupported("free of non-block")
    ex.oblige(st, "free-of-a-live-heap-block(not-the-static-BUFFER)", "safety", z3.Not(p.fields["static"].t), node,
              {"exception": "invalid free"})
    st.ghost["live"] = VInt(st.ghost.get("live", VInt(0)).t - 1)
    yield NONE, st


def p_memcpy(ex, st, args, kwargs, node):
    dst, src, n = args
    ex.oblige(st, "memcpy-within-both-blocks", "safety",
              z3.And(n.t >= 0, n.t <= dst.fields["size"].t, n.t <= src.fields["size"].t), node, {"exception": "buffer overflow"})
    from .smt import fresh_arr
    new = fresh_arr("cpy")
    old_dst, s = dst.fields["mem"].obj, src.fields["mem"].obj
    st.ctx.addq("memcpy", new, lambda k: z3.Implies(z3.And(0 <= k, k < n.t), new[k] == s[k]))
    st.ctx.addq("memcpy-rest", new, lambda k: z3.Implies(k >= n.t, new[k] == old_dst[k]))
    dst.fields["mem"] = VConst(new)
    yield NONE, st


def p_nomemory(ex, st, args, kwargs, node):
    st.pending_exc = MemoryError
    yield NONE, st


def block_store(ex, st, blk, idx, val, node):
    """blk[idx] = val : in-bounds obligation + functional update of the block's content"""
    from .smt import fresh_arr
    ex.oblige(st, "write-within-the-buffer", "safety", z3.And(idx.t >= 0, idx.t < blk.fields["size"].t), node,
              {"exception": "buffer overflow"})
    old = blk.fields["mem"].obj
    new = fresh_arr("st")
    c = _code(ex, val)
    st.ctx.add(new[idx.t] == c)
    st.ctx.addq("store-frame", new, lambda k: z3.Implies(k != idx.t, new[k] == old[k]))
    st.ctx.bound(idx.t)
    blk.fields["mem"] = VConst(new)


def install_memory(ex, mod):
    from .engine import Prim
    reg = ex.native_by_id
    for name, fn in (("PyMem_Malloc", p_malloc), ("PyMem_Realloc", p_realloc), ("PyMem_Free", p_free),
                     ("memcpy", p_memcpy), ("PyErr_NoMemory", p_nomemory)):
        reg[id(mod.__dict__[name])] = Prim("c." + name, fn)
