"""Native replay: run the real function of /repo and the executable specification on concrete
arguments under CPython and compare the outcomes (value or exception class)."""
from __future__ import annotations

import os
import importlib
import itertools
import json
import random
import re


def resolve(qual):
    modname, name = qual.split(":")
    obj = importlib.import_module(modname)
    for part in name.split("."):
        obj = getattr(obj, part)
    return getattr(obj, "__wrapped__", obj)


def outcome(fn, args):
    try:
        return ("ret", fn(*args))
    except BaseException as e:  # noqa: BLE001 - the class is the observation
        return ("raise", type(e).__name__, str(e)[:200], type(e))


def agrees(real, spec):
    if real[0] != spec[0]:
        return False
    if real[0] == "ret":
        return real[1] == spec[1] and type(real[1]) is type(spec[1]) and _deep_types(real[1]) == _deep_types(spec[1])
    return issubclass(real[3], spec[3])


def _deep_types(v):
    if isinstance(v, (tuple, list)):
        return tuple(_deep_types(x) for x in v)
    return type(v).__name__


def show(o):
    if o[0] == "ret":
        return {"returns": repr(o[1])}
    return {"raises": o[1], "message": o[2]}


PARTS = ("scheme", "netloc", "path", "query", "fragment")


ACCESSORS = ("scheme", "raw_authority", "raw_user", "raw_password", "raw_host", "explicit_port", "port",
             "raw_path", "raw_query_string", "raw_fragment", "host_subcomponent", "absolute")


def warm(u):
    """fill the per-object memo the way earlier calls in a program would have"""
    for a in ACCESSORS:
        try:
            getattr(u, a)
        except BaseException:
            pass
    try:
        hash(u)
        u < u
    except BaseException:
        pass
    return u


def memo_mismatch(u):
    """accessors of a returned URL compared with a memo-free twin built from the same parts"""
    from yarl._url import from_parts_uncached
    twin = from_parts_uncached(u._scheme, u._netloc, u._path, u._query, u._fragment)
    bad = []
    for a in ACCESSORS + ("__hash__",):
        def get(x):
            try:
                return ("ret", hash(x) if a == "__hash__" else getattr(x, a))
            except BaseException as e:
                return ("raise", type(e).__name__)
        if get(u) != get(twin):
            bad.append({"accessor": a, "returned_url": repr(get(u)), "memo_free_twin": repr(get(twin))})
    return bad


def real_arg(v):
    if isinstance(v, dict) and "__url__" in v:
        from yarl._url import from_parts_uncached
        return warm(from_parts_uncached(*[v["__url__"][p] for p in PARTS]))
    return v


def spec_arg(v):
    if isinstance(v, dict) and "__url__" in v:
        from contracts.spec_url import U
        return U(*[v["__url__"][p] for p in PARTS])
    return v


def norm_result(o):
    """URL objects (real) and U values (spec) are compared by their five stored parts"""
    if o[0] != "ret":
        return o
    v = o[1]
    if type(v).__name__ == "URL" and hasattr(v, "_scheme"):
        v = ("URL-parts", v._scheme, v._netloc, v._path, v._query, v._fragment)
    elif type(v).__name__ == "U":
        v = ("URL-parts", v.scheme, v.netloc, v.path, v.query, v.fragment)
    return ("ret", v)


def judge(contract, inputs):
    """inputs: dict name -> python value.  Returns dict(real=..., spec=..., agrees=bool, in_pre=bool)"""
    raw = [inputs[n] for n, _ in contract.params]
    if getattr(contract, "fn", None) is not None and contract.spec is None:
        # a lemma over specifications: it must evaluate to a true value
        in_pre = True
        if contract.requires is not None:
            try:
                in_pre = bool(contract.requires(*[spec_arg(a) for a in raw]))
            except BaseException:
                in_pre = False
        r = outcome(contract.fn, [spec_arg(a) for a in raw])
        ok = r[0] == "ret" and bool(r[1])
        return {"real": show(r), "spec": {"returns": "True"}, "agrees": ok, "in_pre": in_pre}
    real = resolve(contract.qual)
    in_pre = True
    if contract.requires is not None:
        try:
            import inspect
            nreq = len(inspect.signature(contract.requires).parameters)
            in_pre = bool(contract.requires(*[spec_arg(a) for a in raw][:nreq]))
        except BaseException:
            in_pre = False
    r0 = outcome(real, [real_arg(a) for a in raw])
    memo_bad = memo_mismatch(r0[1]) if r0[0] == "ret" and type(r0[1]).__name__ == "URL" and hasattr(r0[1], "_cache") else []
    r = norm_result(r0)
    s = norm_result(outcome(contract.spec or contract.native_spec, [spec_arg(a) for a in raw]))
    if memo_bad:
        return {"real": show(r), "spec": show(s), "agrees": False, "in_pre": in_pre, "memo_mismatch": memo_bad}
    return {"real": show(r), "spec": show(s), "agrees": agrees(r, s), "in_pre": in_pre}


def alphabet_for(contract, seed_inputs):
    """characters worth trying, most relevant first: the literals of the real function's own
    source and of the module constants it references, those of its specification, the
    characters of the model, and a few generic representatives"""
    import ast
    import inspect
    import textwrap
    out = []

    def add(chars):
        for ch in chars:
            if ch not in out:
                out.append(ch)
    for fn in (resolve(contract.qual), contract.spec or getattr(contract, 'native_spec', None)):
        try:
            tree = ast.parse(textwrap.dedent(inspect.getsource(fn)))
        except (OSError, TypeError, SyntaxError):
            continue
        mod = inspect.getmodule(fn)
        for n in ast.walk(tree):
            if isinstance(n, ast.Constant) and isinstance(n.value, str) and len(n.value) <= 4 and not n.value.isalnum():
                add(c for c in n.value if not c.isalnum())
        for n in ast.walk(tree):
            if isinstance(n, ast.Constant) and isinstance(n.value, str) and len(n.value) <= 4 and not n.value.isalnum():
                add(c for c in n.value if not c.isalnum())
            elif isinstance(n, ast.Name) and mod is not None:
                v = getattr(mod, n.id, None)
                if isinstance(v, str) and len(v) <= 80:
                    add([c for c in v if not c.isalnum()][:2])
                elif isinstance(v, (list, tuple)) and len(v) <= 8 and all(isinstance(x, str) and len(x) <= 2 for x in v):
                    add("".join(v))
    for v in seed_inputs.values():
        if isinstance(v, str):
            add(v[:6])
    add("a1Z%+ _\u00e9\u0668\ud800")
    return out


def url_corpus():
    """stored-part tuples of structurally interesting URLs (every authority shape x ports at
    and around the defaults x path/query/fragment shapes)"""
    out = []
    for sch in ("", "http", "https", "x"):
        for ui in ("", "u@", "u:p@", ":p@", ":@", "u:@", "%41:b%20@"):
            for host in ("h", "[::1]", "h.", "", "xn--bcher-kva.de", "1.2.3.4"):
                for port in ("", ":80", ":0", ":443", ":8080", ":65535"):
                    netloc = ui + host + port
                    for path in ("", "/", "/a/b", "a", "/a%20b/c.txt", "/a/"):
                        for q in ("", "q=1", "a=1;", "a=1&"):
                            for f in ("", "f"):
                                if netloc and path and not path.startswith("/"):
                                    continue
                                out.append({"__url__": dict(scheme=sch, netloc=netloc, path=path, query=q, fragment=f)})
    return out


def search_with_urls(contract, seed_inputs, budget, seed):
    import random as _r
    rnd = _r.Random(seed)
    names = [n for n, _ in contract.params]
    corpus = url_corpus()
    rnd.shuffle(corpus)
    scalars = {
        "int": [None, 0, 80, 443, 21, 8080, 65535, 65536, -1, True, False],
        "str": ["", "x", "a b", "é", "%41", "/", ":", "@", "a/b", ".", "..", "x.y", "\ud800"],
    }
    tried = 0

    def variants(u):
        d = u["__url__"]
        out = [u]
        for k, vals in (("path", ("", "/", "/a")), ("scheme", ("", "http", "https")), ("netloc", ("", "h", "h:80")),
                        ("query", ("", "q=1")), ("fragment", ("", "f"))):
            for v in vals:
                if d[k] != v:
                    e = dict(d)
                    e[k] = v
                    out.append({"__url__": e})
        return out
    for u in corpus:
        alts = []
        first_url = True
        for n in names:
            v = seed_inputs.get(n)
            if isinstance(v, dict) and "__url__" in v:
                alts.append([u] if first_url else variants(u))
                first_url = False
            elif isinstance(v, bool) or isinstance(v, int) or v is None:
                alts.append([v] + scalars["int"])
            elif isinstance(v, str):
                alts.append([v] + scalars["str"])
            else:
                alts.append([v])
        for combo in itertools.product(*alts):
            cand = dict(zip(names, combo))
            tried += 1
            if tried % 64 == 0 and _late():
                return None, None, tried
            try:
                j = judge(contract, cand)
            except Exception:
                continue
            if j["in_pre"] and not j["agrees"]:
                return cand, j, tried
            if tried > budget:
                return None, None, tried
    return None, None, tried


def own_literals(contract):
    """non-alphanumeric characters of the string literals in the real function's own source"""
    import ast
    import inspect
    import textwrap
    out = []
    try:
        tree = ast.parse(textwrap.dedent(inspect.getsource(resolve(contract.qual))))
    except (OSError, TypeError, SyntaxError):
        return out
    for n in ast.walk(tree):
        if isinstance(n, ast.Constant) and isinstance(n.value, str) and len(n.value) <= 2:
            for c in n.value:
                if not c.isalnum() and c not in out:
                    out.append(c)
    return out


SEARCH_WALL_S = 20.0        # per failing obligation
_SPENT = {}                 # function -> seconds already spent searching (cap 45 s per function)


def search(contract, seed_inputs, budget=60000, seed=0):
    import time as _t
    spent = _SPENT.get(contract.qual, 0.0)
    if spent > 45.0:
        return None, None, 0
    t0 = _t.time()
    global _DEADLINE
    _DEADLINE = t0 + SEARCH_WALL_S
    try:
        return _search(contract, seed_inputs, budget, seed)
    finally:
        _SPENT[contract.qual] = spent + (_t.time() - t0)


_DEADLINE = None


def _late():
    import time as _t
    return _DEADLINE is not None and _t.time() > _DEADLINE


def _search(contract, seed_inputs, budget=60000, seed=0):
    if any(isinstance(v, dict) and "__url__" in v for v in seed_inputs.values()):
        return search_with_urls(contract, seed_inputs, budget, seed)
    """Fallback when the solver's model does not reproduce natively (library functions are
    over-approximated in the VCs): enumerate small inputs around the model and look for a
    genuine disagreement between the real function and its specification."""
    rnd = random.Random(seed)
    names = [n for n, _ in contract.params]
    strs = [n for n in names if isinstance(seed_inputs.get(n), str)]
    alpha = alphabet_for(contract, seed_inputs)
    pri = [c for c in alpha if not c.isalnum()][:16] + [c for c in alpha if c.isalnum()][:4]
    tried = 0

    def attempt(cand):
        nonlocal tried
        tried += 1
        if tried % 64 == 0 and _late():
            tried = budget + 1          # wall-clock budget used up: every loop below stops
            return None
        if tried > budget:
            return None
        j = judge(contract, cand)
        return j if (j["in_pre"] and not j["agrees"]) else None
    # 1. mutations of the model
    base = dict(seed_inputs)
    for n in strs:
        s0 = base[n]
        for i in range(len(s0) + 1):
            for ch in pri:
                for cand_s in (s0[:i] + ch + s0[i:], s0[:i] + ch + s0[i + 1:]):
                    cand = dict(base)
                    cand[n] = cand_s
                    j = attempt(cand)
                    if j:
                        return cand, j, tried
                    if tried > budget // 3:
                        break
    # 2. exhaustive short strings (single string parameter) / random (several)
    if len(strs) == 1:
        n = strs[0]
        own = own_literals(contract)
        if 0 < len(own) <= 3:
            # few significant characters: enumerate longer strings over them and one letter
            small2 = own + [c for c in ("a", ".", "%") if c not in own][:5 - len(own)]
            for L in range(0, 8 if len(small2) <= 4 else 7):
                for tup in itertools.product(small2, repeat=L):
                    cand = dict(base)
                    cand[n] = "".join(tup)
                    j = attempt(cand)
                    if j:
                        return cand, j, tried
        small = [c for c in alpha if not c.isalnum()][:11] + [c for c in alpha if c.isalnum()][:2]
        for L in range(0, 5):
            for tup in itertools.product(small, repeat=L):
                cand = dict(base)
                cand[n] = "".join(tup)
                j = attempt(cand)
                if j:
                    return cand, j, tried
                if tried > budget:
                    return None, None, tried
    while tried < budget:
        cand = dict(base)
        for n in strs:
            cand[n] = "".join(rnd.choice(pri) for _ in range(rnd.randint(0, 6)))
        for n in names:
            if isinstance(base.get(n), bool):
                cand[n] = rnd.random() < 0.5
            elif isinstance(base.get(n), int):
                cand[n] = rnd.choice([0, 1, 80, 443, 65535, 65536, -1, base[n]])
        j = attempt(cand)
        if j:
            return cand, j, tried
    return None, None, tried


# ---------------------------------------------------------------- compiled quoter: replay on a fresh build

_EXT = {}


def build_extension():
    """the compiled quoter built from the *current* /repo/yarl/_quoting_c.pyx (cached by the hash
    of the .pyx text, contracts/extcache.py) and imported under a private name, so that replays
    exercise exactly the text whose verification conditions failed"""
    if "mod" in _EXT:
        return _EXT["mod"]
    import importlib.util
    from contracts import extcache
    so = extcache.built_extension()
    if so is None:
        raise RuntimeError("the compiled quoter could not be built from the current .pyx")
    spec = importlib.util.spec_from_file_location("_quoting_c", so)
    mod = importlib.util.module_from_spec(spec)
    spec.loader.exec_module(mod)
    _EXT["mod"] = mod
    return mod


def c_quoter_candidates(seed_text=None):
    base = ["", "a", "%", "%4", "%41", "%4g", "%zz", "a b", "+", "é", "€", "\U0001f600", "\U00010000", "￿",
            "\ud800", "a\udc00b", "%\ud80041", "%00", "%7F", "%2F", "%2f", "%25", "/?#[]@:", "=&;+", "\x00\x7f", "%C3%A9",
            "%c3%a9", "a%", "a%4", "%%41", "\u0080", "߿", "ࠀ"]
    if seed_text:
        base.insert(0, seed_text)
    out = list(base)
    for pre in (8189, 8190, 8191, 8192, 8193, 16383, 16384):
        for tail in ("%41b", " b", "é", "%2f", "b", "\ud800", "%zz", "%"):
            out.append("a" * pre + tail)
    return out


def _search_c_quoter_here(progress=None):
    """first (configuration, text) on which the freshly built compiled quoter disagrees with the
    token-level specification (and with the pure-Python quoter)"""
    from contracts import spec_quote
    from contracts.registry import PY_QUOTERS, _quoter_configs
    mod = build_extension()
    cfgs = _quoter_configs()
    for name, pyq in PY_QUOTERS.items():
        cq = mod._Quoter(**cfgs[name])
        for text in c_quoter_candidates():
            if cfgs[name].get("requote", True) and spec_quote.surrogate_in_escape_window(text):
                continue      # recorded known finding: reported separately, never searched for
            if progress is not None:
                progress(name, text)
            want = outcome(lambda t: spec_quote.q_spec(pyq, t), [text])
            got = outcome(cq, [text])
            if not agrees(got, want):
                return {"quoter": name, "config": cfgs[name], "text": text}, {"real": show(got), "spec": show(want),
                                                                              "agrees": False, "in_pre": True}
    return None, None


def search_c_quoter():
    """the same search in a child process: a changed .pyx may be memory-unsafe, and the freshly
    built extension must not be able to take the checker down with it.  A child that dies on a
    signal is itself the replayed failure: the input it was working on is reported."""
    import json as _json
    import subprocess
    import sys
    root = os.path.dirname(os.path.dirname(os.path.abspath(__file__)))
    try:
        r = subprocess.run([sys.executable, "-m", "pyvc.replay", "--c-quoter-child"], cwd=root, capture_output=True,
                           text=True, timeout=420)
    except subprocess.TimeoutExpired:
        return None, None
    last = None
    result = None
    for line in r.stdout.splitlines():
        if line.startswith("TRY "):
            last = line[4:]
        elif line.startswith("RESULT "):
            result = _json.loads(line[7:])
    if result is not None:
        return (result[0], result[1]) if result[0] is not None else (None, None)
    if r.returncode < 0 and last is not None:
        name, text = _json.loads(last)
        return ({"quoter": name, "text": text},
                {"real": f"the compiled quoter (built from the current .pyx) died on signal {-r.returncode}",
                 "spec": "a quoted string", "agrees": False, "in_pre": True})
    return None, None


if __name__ == "__main__":
    import json as _json
    import sys as _sys
    if "--c-quoter-child" in _sys.argv:
        def _progress(name, text):
            print("TRY " + _json.dumps([name, text]), flush=True)
        cand, j = _search_c_quoter_here(_progress)
        print("RESULT " + _json.dumps([cand, j], default=repr), flush=True)
