# feasibility: strings as array views + array-property quantifiers
import time
from z3 import *
A = Array('A', IntSort(), IntSort()); n = Int('n')
SL, Q, H = 47, 63, 35
cnt = [0]
hyps = []
def fresh(p='v'):
    cnt[0] += 1; return Int(f'{p}{cnt[0]}')
def find(lo, hi, c, start):
    """index (absolute) of first c in A[start:hi], or -1 ; lo is view base"""
    i = fresh('f'); k = fresh('k')
    hyps.append(Or(And(i == -1, ForAll(k, Implies(And(start <= k, k < hi), A[k] != c))),
                   And(start <= i, i < hi, A[i] == c, ForAll(k, Implies(And(start <= k, k < i), A[k] != c)))))
    return i
def contains(lo, hi, c):
    return find(lo, hi, c, lo) >= 0
hyps += [n >= 2, A[0] == SL, A[1] == SL]
has_hash = contains(0, n, H); has_q = contains(0, n, Q)
def first_of(chars):
    d = n
    for c in chars:
        w = find(0, n, c, 2)
        d = If(And(w >= 0, w < d), w, d)
    return d
delim = If(And(has_hash, has_q), first_of([SL, Q, H]), If(has_q, first_of([SL, Q]), If(has_hash, first_of([SL, H]), first_of([SL]))))
# netloc = [2,delim), rest=[delim,n)
# partition '#' on rest if has_hash
i1 = find(delim, n, H, delim)
r1_hi = If(And(has_hash, i1 >= 0), i1, n); frag_lo = If(And(has_hash, i1 >= 0), i1 + 1, n); frag_hi = n
i2 = find(delim, r1_hi, Q, delim)
path_hi = If(And(has_q, i2 >= 0), i2, r1_hi); q_lo = If(And(has_q, i2 >= 0), i2 + 1, r1_hi); q_hi = r1_hi
# spec
a_end, p_end, q_end = Ints('a_end p_end q_end'); k = Int('k')
def isd(x, cs): return Or([x == c for c in cs])
spec = [2 <= a_end, a_end <= n, ForAll(k, Implies(And(2 <= k, k < a_end), Not(isd(A[k], [SL, Q, H])))), Or(a_end == n, isd(A[a_end], [SL, Q, H])),
        a_end <= p_end, p_end <= n, ForAll(k, Implies(And(a_end <= k, k < p_end), Not(isd(A[k], [Q, H])))), Or(p_end == n, isd(A[p_end], [Q, H])),
        ]
hasq_s = And(p_end < n, A[p_end] == Q)
spec += [If(hasq_s, And(p_end + 1 <= q_end, q_end <= n, ForAll(k, Implies(And(p_end + 1 <= k, k < q_end), A[k] != H)), Or(q_end == n, A[q_end] == H)), q_end == p_end)]
s_qlo = If(hasq_s, p_end + 1, p_end)
s_flo = If(q_end < n, q_end + 1, n)
def same(lo1, hi1, lo2, hi2):  # slice equality as same bounds, or both empty
    return Or(And(lo1 == lo2, hi1 == hi2), And(lo1 >= hi1, lo2 >= hi2))
goals = {"netloc": same(2, delim, 2, a_end), "path": same(delim, path_hi, a_end, p_end), "query": same(q_lo, q_hi, s_qlo, q_end), "frag": same(frag_lo, frag_hi, s_flo, n)}
for name, g in goals.items():
    s = Solver(); s.set("timeout", 60000)
    s.add(*hyps); s.add(*spec); s.add(Not(g))
    t = time.time(); r = s.check(); print(name, r, round(time.time() - t, 2))
    if r == sat: print(s.model())
# vacuity
s = Solver(); s.add(*hyps); s.add(*spec); print("consistent:", s.check())
