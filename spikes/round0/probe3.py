from yarl import URL
def t(label, f):
    try:
        print(label, '->', repr(f()))
    except Exception as e:
        print(label, '-> EXC', type(e).__name__, e)
def rt(s):
    u = URL(s); s1 = str(u); u2 = URL(s1)
    return (s1, str(u2), u2 == u, [(a, getattr(u, a), getattr(u2, a)) for a in ("scheme","user","password","host","port","path","query_string","fragment") if getattr(u, a) != getattr(u2, a)])
for s in ["a%3Ab", "%2Fa", "/%2F", "x/%2e%2e/y", "http://a/%2e%2e/y", "//a/b%3Fc", "%2F%2Fa", "./a:b", "a%3a//b", "http://a/b%23c", "http://A%40b/", "http://a:b%40c@d/", "http://u%3A:p@h/", "http://h:080/", "http://h:00/", "ws://h:+80/", "HTTP://h:80/?", "http://h/?#", "http://h?a", "http://h#a", "//h:80", "foo:", "foo://", "foo:///p", "http:///p", "http:/p", "http:p", "http:", "//@h", "//:@h", "//u:@h", "//@:80", "http://h/a b", "http://[::1%eth0]/", "http://[::FFFF:1.2.3.4]:80", "http://1.2.3.4.:80/","http://h/?a=%zz&b=%", "http://h/#%", "\x00 http://h", "ht\ttp://h/a\nb", "http://h/é?é#é", "http://é:é@h/", "http://h/a/../../b/./c/..", "http://h/..%2Fa", "http://h/%2e%2E/a", "a/../b", "/a/../b", "//h/a/../b?x/../y#z/../w", "http://h/;a=b", "http://h/a+b?a+b=c+d#a+b", "http://h/a%2bb?a%2bb", "http://h/?a;b&c", "http://h/?%3B%26%3D%2B", "http://h/%3B%26%3D%2B%40%3A%2F%3F%23%5B%5D", "http://h/?%40%3A%2F%3F%23%5B%5D", "http://h/#%40%3A%2F%3F%23%5B%5D%2B%26", "http://%5B%5D@h/"]:
    t(repr(s), lambda: rt(s))
