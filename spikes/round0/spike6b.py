# feasibility: can a line-oriented rewriter turn _quoting_c.pyx into something ast.parse accepts?
import re, ast, sys
src = open('/repo/yarl/_quoting_c.pyx').read()
CT = r'(?:const\s+)?(?:unsigned\s+)?(?:Py_UCS4|Py_ssize_t|uint8_t|uint64_t|int|bint|char|str|list|void|Writer|_Quoter)\s*\*?'
out=[]; types={}
lines = src.split('\n')
# join continuation lines inside parentheses for cdef signatures
i=0; buf=[]
def depth(s): return s.count('(')-s.count(')')
joined=[]
while i < len(lines):
    l = lines[i]
    if re.match(r'\s*cdef\s', l) and depth(l)>0:
        acc=l
        while depth(acc)>0:
            i+=1; acc += ' ' + lines[i].strip()
        joined.append(acc)
    else:
        joined.append(l)
    i+=1
for l in joined:
    ind = re.match(r'\s*', l).group()
    s = l.strip()
    if re.match(r'(from\s+\S+\s+)?cimport\b', s) or re.match(r'from \S+ cimport', s):
        # multi-line cimport lists
        out.append(ind+'pass  # cimport dropped'); 
        continue
    if s.startswith('DEF '):
        out.append(ind+s[4:]); continue
    m = re.match(r'cdef\s+struct\s+(\w+):', s)
    if m: out.append(ind+f'class {m.group(1)}:  # struct'); continue
    m = re.match(r'cdef\s+class\s+(\w+):', s)
    if m: out.append(ind+f'class {m.group(1)}:'); continue
    m = re.match(r'cdef\s+(?:inline\s+)?('+CT+r')\s*(\w+)\((.*)\)\s*(noexcept)?\s*:', s)
    if m:
        ret, name, params = m.group(1), m.group(2), m.group(3)
        ps=[]
        for p in params.split(','):
            p=p.strip()
            if not p: continue
            mm = re.match(r'('+CT+r')\s*(\w+)(\[\])?$', p)
            if mm: ps.append(mm.group(2)); types[(name,mm.group(2))]=mm.group(1).strip()+(mm.group(3) or '')
            else: ps.append(p)
        types[(name,'return')]=ret.strip()
        out.append(ind+f'def {name}({", ".join(ps)}):'); continue
    m = re.match(r'cdef\s+('+CT+r')\s*(\w+)(\[[^\]]*\])?\s*(=\s*(.*))?$', s)
    if m:
        t, name, arr, _, init = m.groups()
        types[('local',name)] = t.strip()+(arr or '')
        out.append(ind+(f'{name} = {init}' if init else f'pass  # decl {t.strip()} {name}{arr or ""}')); continue
    # plain struct field lines "char *buf"
    m = re.match(r'('+CT+r')\s*(\w+)$', s)
    if m and not s.startswith(('return','raise','pass','continue','break','else')):
        out.append(ind+f'{m.group(2)} = None  # field {m.group(1).strip()}'); continue
    # def params with C types
    m = re.match(r'(cdef|def)\s+(\w+)\((.*)\):$', s)
    # casts <T>expr  -> __cast__("T", expr) : handle simple forms
    s2 = re.sub(r'<\s*('+CT+r')\s*>\s*\(', lambda mm: f'__cast__("{mm.group(1).strip()}")(', s)
    s2 = re.sub(r'<\s*('+CT+r')\s*>\s*(-?\w[\w\.]*)', lambda mm: f'__cast__("{mm.group(1).strip()}")({mm.group(2)})', s2)
    s2 = re.sub(r'&(\w+)\[0\]', r'__addr__(\1, 0)', s2)
    s2 = re.sub(r'(?<![\w\)])&(\w+)', r'__addr__(\1)', s2)
    s2 = re.sub(r'\b(str|bint)\s+(\w+)=', r'\2=', s2)   # typed keyword params in def
    s2 = re.sub(r'\((str) (\w+)\)', r'(\2)', s2)
    out.append(ind+s2)
def casts(s):
    s = re.sub(r'<\s*('+CT+r')\s*>\s*\(', lambda mm: f'__cast__("{mm.group(1).strip()}")(', s)
    s = re.sub(r'<\s*('+CT+r')\s*>\s*(-?\w[\w\.]*)', lambda mm: f'__cast__("{mm.group(1).strip()}")({mm.group(2)})', s)
    return s
out=[casts(x) for x in out]
res='\n'.join(out)
# multi-line "from x cimport (" blocks: drop lines until ')'
res = re.sub(r'pass  # cimport dropped\n(?:    \w+,\n)+\)', 'pass', res)
try:
    tree=ast.parse(res)
    fns=[n.name for n in ast.walk(tree) if isinstance(n, ast.FunctionDef)]
    print("PARSED OK; functions:", fns)
    print("types recorded:", len(types))
except SyntaxError as e:
    print("SyntaxError", e)
    L=res.split('\n'); 
    for j in range(max(0,e.lineno-4), min(len(L), e.lineno+3)): print(j+1, L[j])
