# sanity: Appendix-B decomposition (with scheme restricted to scheme chars) vs split_url; RFC 5.2.2 vs join
import re, random, itertools
from yarl import URL
from yarl._parse import split_url
APPB = re.compile(r'^(([^:/?#]+):)?(//([^/?#]*))?([^?#]*)(\?([^#]*))?(#(.*))?$', re.S)
SCH = re.compile(r'^[A-Za-z][A-Za-z0-9+.\-]*$')
def appb(s):
    s = s.lstrip("".join(map(chr, range(0x21)))).replace("\t", "").replace("\r", "").replace("\n", "")
    m = APPB.match(s)
    sch = m.group(2)
    if sch is not None and not SCH.match(sch):
        # scheme group not taken: re-match without scheme
        m2 = re.match(r'^()()(//([^/?#]*))?([^?#]*)(\?([^#]*))?(#(.*))?$', s, re.S)
        return ("", m2.group(4) or "", m2.group(5), m2.group(7) or "", m2.group(9) or "")
    return ((sch or "").lower(), m.group(4) or "", m.group(5), m.group(7) or "", m.group(9) or "")
alpha = ["a", "B", "1", ":", "/", "//", "?", "#", "@", "[", "]", "::1", "v1.x", " ", "\t", "\n", "+", ".", "%41", "é", "\x00"]
rnd = random.Random(3); bad = {}; exc = {}
for _ in range(300000):
    s = "".join(rnd.choice(alpha) for _ in range(rnd.randint(0, 8)))
    try: got = split_url(s)
    except ValueError as e: continue
    except Exception as e: exc.setdefault(type(e).__name__, s); continue
    want = appb(s)
    if got != want:
        key = tuple(i for i in range(5) if got[i] != want[i])
        bad.setdefault(key, (s, got, want))
print("split_url non-ValueError exceptions:", exc)
for k, v in bad.items(): print("mismatch comps", k, v)
