# feasibility: concat + rpartition/partition round trip (make_netloc -> split_netloc), array views
import time
from z3 import *
cnt=[0]
def fi(p='v'):
    cnt[0]+=1; return Int(f'{p}{cnt[0]}')
def fa(p='A'):
    cnt[0]+=1; return Array(f'{p}{cnt[0]}', IntSort(), IntSort())
H=[]  # hypotheses
class S:
    def __init__(s, arr, lo, hi): s.a, s.lo, s.hi = arr, lo, hi
    def len(s): return s.hi - s.lo
    def at(s,k): return s.a[s.lo+k]
def sym(name):
    lo, hi = 0, Int(name+'_n'); H.append(hi>=0); return S(Array(name, IntSort(), IntSort()), 0, hi)
def lit(text):
    a = fa('L')
    for i,c in enumerate(text): H.append(a[i]==ord(c))
    return S(a,0,IntVal(len(text)))
def concat(*parts):
    R = fa('C'); off = IntVal(0)
    for p in parts:
        k = fi('k')
        H.append(ForAll(k, Implies(And(0<=k, k<p.len()), R[off+k]==p.at(k))))
        off = off + p.len()
    return S(R, IntVal(0), off)
def find(s, c, frm=None):
    i=fi('f'); k=fi('k'); lo = s.lo if frm is None else frm
    H.append(Or(And(i==-1, ForAll(k, Implies(And(lo<=k,k<s.hi), s.a[k]!=c))),
                And(lo<=i, i<s.hi, s.a[i]==c, ForAll(k, Implies(And(lo<=k,k<i), s.a[k]!=c)))))
    return i  # absolute index in s.a
def rfind(s, c):
    i=fi('r'); k=fi('k')
    H.append(Or(And(i==-1, ForAll(k, Implies(And(s.lo<=k,k<s.hi), s.a[k]!=c))),
                And(s.lo<=i, i<s.hi, s.a[i]==c, ForAll(k, Implies(And(i<k,k<s.hi), s.a[k]!=c)))))
    return i
def nochar(s, cs):
    k=fi('k'); return ForAll(k, Implies(And(s.lo<=k,k<s.hi), And([s.a[k]!=ord(c) for c in cs])))
def eq(x,y):
    k=fi('k'); return And(x.len()==y.len(), ForAll(k, Implies(And(0<=k,k<x.len()), x.at(k)==y.at(k))))
AT, CO, LB, RB = 64, 58, 91, 93
# inputs: user (non-None, nonempty), password (non-None), host nonempty w/o brackets, port digits
user, pw, host, ps = sym('user'), sym('pw'), sym('host'), sym('ps')
H += [user.len()>0, host.len()>0, ps.len()>0]
H += [nochar(user, ":@"), nochar(host, ":@[]"), nochar(ps, ":@[]")]
# make_netloc: ret = f"{host}:{port}" ; user=f"{user}:{password}" ; f"{user}@{ret}"
ret = concat(host, lit(":"), ps)
ui = concat(user, lit(":"), pw)
netloc = concat(ui, lit("@"), ret)
# split_netloc(netloc): "@" in netloc ; userinfo,_,hostinfo = rpartition("@")
r = rfind(netloc, AT)
userinfo = S(netloc.a, netloc.lo, r); hostinfo = S(netloc.a, r+1, netloc.hi)
c1 = find(userinfo, CO)
username = S(netloc.a, userinfo.lo, If(c1>=0, c1, userinfo.hi)); have_pw = c1>=0
password = S(netloc.a, If(c1>=0,c1+1,userinfo.hi), userinfo.hi)
lb = find(hostinfo, LB)
c2 = find(hostinfo, CO)
hostname = S(netloc.a, hostinfo.lo, If(c2>=0,c2,hostinfo.hi)); port_str = S(netloc.a, If(c2>=0,c2+1,hostinfo.hi), hostinfo.hi)
goals = {"found@": r>=0, "nobracket": lb==-1, "have_pw": have_pw, "user": eq(username,user), "pw": eq(password,pw), "host": eq(hostname,host), "port": eq(port_str,ps)}
for name,g in goals.items():
    s=Solver(); s.set("timeout",60000); s.add(*H); s.add(Not(g))
    t=time.time(); rr=s.check(); print(name, rr, round(time.time()-t,2))
s=Solver(); s.add(*H); print("consistent", s.check())
