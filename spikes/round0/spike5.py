# feasibility: simulation-style loop VC for the Python quoter (REQUOTER-like config), pure LIA + array reads.
# State at loop head: idx, pct_len in {0,1,2}, ghost p (input prefix already matched by emitted units).
# Invariant: p == idx - pct_len, 0<=p<=n, pct_len>0 -> B[p]==37 and (pct_len==2 -> pct[1]==upper(B[p+1])), idx<=n
import time
from z3 import *
B = Array('B', IntSort(), IntSort()); n, idx, pl, p1 = Ints('n idx pl p1')
SAFE = set(map(ord, "abcdefghijklmnopqrstuvwxyzABCDEFGHIJKLMNOPQRSTUVWXYZ0123456789-._~!$'()*,+&=;"))
PROT = set()
def inset(x, S): return Or([x == c for c in sorted(S)])
def up(x): return If(And(x >= 97, x <= 122), x - 32, x)
def ishex(x): return Or(And(48 <= x, x <= 57), And(65 <= x, x <= 70), And(97 <= x, x <= 102))
def hexv(x): return If(x <= 57, x - 48, If(x <= 70, x - 55, x - 87))
def AZ09(x): return Or(And(48 <= x, x <= 57), And(65 <= x, x <= 90))   # _IS_HEX as written: [A-Z0-9]
def inv(idx, pl, p1):
    p = idx - pl
    return And(0 <= p, idx <= n, pl >= 0, pl <= 2, Implies(pl >= 1, B[p] == 37), Implies(pl == 2, p1 == up(B[p + 1])))
# spec step at position p: returns (kind, k, byte): kind 0 = "%25" consumed 1 ; 1 = escape kept "%HH" consumed 3 ; 2 = decoded literal consumed 3; 3 = literal safe consumed 1; 4 = pct-encode byte consumed 1
def spec(p):
    c = B[p]
    esc = And(c == 37, p + 2 < n, ishex(B[p + 1]), ishex(B[p + 2]))
    b = hexv(B[p + 1]) * 16 + hexv(B[p + 2])
    kind = If(esc, If(And(inset(b, SAFE), Not(inset(b, PROT))), 2, 1), If(c == 37, 0, If(inset(c, SAFE), 3, 4)))
    k = If(esc, 3, 1)
    return kind, k, If(esc, b, c)
obls = []
byte = lambda x: And(0 <= x, x < 256)
k_ = Int('k_')
base = [inv(idx, pl, p1), idx < n, n >= 0, ForAll(k_, byte(B[k_]))]
ch = B[idx]; idx1 = idx + 1
# branch A: pct non-empty
chU = up(ch)
# A1: len(pct)+1 == 3
p = idx - pl
A1 = base + [pl == 2]
nothex = Not(And(AZ09(p1), AZ09(chU), ishex(p1), ishex(chU)))   # regex passes but int() fails -> same path
kind, k, b = spec(p)
#   A1a not hex: emit %25, idx' = idx1-2, pl' = 0
obls.append(("A1a emit%25 matches spec", A1 + [nothex], And(kind == 0, inv(idx1 - 2, 0, p1), (idx1 - 2) == p + k)))
#   A1b hex: unquoted byte
hx = Not(nothex); ub = hexv(p1) * 16 + hexv(chU)
obls.append(("A1b-protected/else emit pct matches spec", A1 + [hx, Or(inset(ub, PROT), Not(inset(ub, SAFE)))], And(kind == 1, b == ub, idx1 == p + k, inv(idx1, 0, p1))))
obls.append(("A1b-safe emit literal matches spec", A1 + [hx, Not(inset(ub, PROT)), inset(ub, SAFE)], And(kind == 2, b == ub, idx1 == p + k, inv(idx1, 0, p1))))
# A2: len(pct)+1 == 2
A2 = base + [pl == 1]
obls.append(("A2-tail emit%25", A2 + [idx1 == n], And(kind == 0, idx1 - 1 == p + k, inv(idx1 - 1, 0, p1))))
obls.append(("A2-cont", A2 + [idx1 != n], inv(idx1, 2, chU)))
# branch B: pct empty
Bq = base + [pl == 0]
kind0, k0, b0 = spec(idx)
obls.append(("B-% tail", Bq + [ch == 37, idx1 == n], And(kind0 == 0, idx1 == idx + k0, inv(idx1, 0, p1))))
obls.append(("B-% start", Bq + [ch == 37, idx1 != n], inv(idx1, 1, p1)))
obls.append(("B-safe", Bq + [ch != 37, inset(ch, SAFE)], And(kind0 == 3, idx1 == idx + k0, inv(idx1, 0, p1))))
obls.append(("B-unsafe", Bq + [ch != 37, Not(inset(ch, SAFE))], And(kind0 == 4, idx1 == idx + k0, inv(idx1, 0, p1))))
# exit: idx>=n and inv -> pl==0 (all input matched)  [expected to need strengthening: pl>0 -> idx<n? ]
obls.append(("exit all consumed", [inv(idx, pl, p1), idx >= n, n >= 0], pl == 0))
for name, hyp, goal in obls:
    s = Solver(); s.set("timeout", 20000); s.add(*hyp); s.add(Not(goal))
    t = time.time(); r = s.check(); print(f"{name:45s} {r} {time.time()-t:.2f}s", (s.model() if r == sat else ""))
