# feasibility: SMT strings for split_url authority search vs Appendix-B style spec
import time
from z3 import *
url = String('url')
def idx(s, c, start=0): return IndexOf(s, StringVal(c), IntVal(start))
def sub(s, a, b):  # s[a:b] for 0<=a<=b<=len
    return SubString(s, a, b - a)
n = Length(url)
# code: assumes url[:2]=="//"
pre = PrefixOf(StringVal("//"), url)
has_hash = Contains(url, StringVal("#")); has_q = Contains(url, StringVal("?"))
def first_of(chars):
    d = n
    for c in chars:
        w = idx(url, c, 2)
        d = If(And(w >= 0, w < d), w, d)
    return d
delim = If(And(has_hash, has_q), first_of("/?#"), If(has_q, first_of("/?"), If(has_hash, first_of("/#"), first_of("/"))))
netloc = sub(url, 2, delim); rest = SubString(url, delim, n - delim)
# then partition '#', then '?'
def part(s, c):
    i = idx(s, c)
    return If(i >= 0, SubString(s, 0, i), s), If(i >= 0, SubString(s, i + 1, Length(s) - i - 1), StringVal(""))
r1, frag = part(rest, "#"); frag = If(has_hash, frag, StringVal("")); r1 = If(has_hash, r1, rest)
r2, query = part(r1, "?"); query = If(has_q, query, StringVal("")); path = If(has_q, r2, r1)
# spec: fragment first, then query, then authority
s1, sfrag = part(url, "#")
s2, squery = part(s1, "?")
j = idx(s2, "/", 2); j = If(j >= 0, j, Length(s2))
snetloc = sub(s2, 2, j); spath = SubString(s2, j, Length(s2) - j)
goal = And(netloc == snetloc, path == spath, query == squery, frag == sfrag)
for name, g in [("netloc", netloc == snetloc), ("path", path == spath), ("query", query == squery), ("frag", frag == sfrag)]:
    s = Solver(); s.set("timeout", 60000)
    s.add(pre, Not(g))
    t = time.time(); r = s.check(); print(name, r, round(time.time() - t, 2))
    if r == sat: print(s.model())
open('/tmp/spike1.smt2','w').write("(set-logic ALL)\n"+Solver().sexpr())
s = Solver(); s.add(pre, Not(goal)); open('/tmp/spike1.smt2','w').write("(set-logic QF_SLIA)\n"+s.sexpr()+"(check-sat)\n")
