# feasibility: list model (arrays of opaque segments) with reverse/concat/slice under own instantiation (_make_child, one path)
import time
from z3 import *
Seg = DeclareSort('Seg'); EMPTY = Const('EMPTY', Seg)
cnt=[0]
def fa(p='L'):
    cnt[0]+=1; return Array(f'{p}{cnt[0]}', IntSort(), Seg)
G=[]; QF=[]; BOUNDS=[]
class L:
    def __init__(s,a,n): s.a,s.n=a,n
def sym(name):
    n=Int(name+'_n'); G.append(n>=0); return L(Array(name,IntSort(),Seg), n)
def reverse(x):
    R=fa('R'); QF.append(lambda k,x=x,R=R: Implies(And(0<=k,k<x.n), R[k]==x.a[x.n-1-k])); BOUNDS.extend([IntVal(0), x.n-1]); return L(R,x.n)
def concat(x,y):
    C=fa('C')
    QF.append(lambda k,x=x,C=C: Implies(And(0<=k,k<x.n), C[k]==x.a[k]))
    QF.append(lambda k,x=x,y=y,C=C: Implies(And(x.n<=k,k<x.n+y.n), C[k]==y.a[k-x.n]))
    BOUNDS.extend([IntVal(0), x.n-1, x.n, x.n+y.n-1]); return L(C, x.n+y.n)
def append(x,e):
    C=fa('A'); QF.append(lambda k,x=x,C=C: Implies(And(0<=k,k<x.n), C[k]==x.a[k])); G.append(C[x.n]==e); BOUNDS.extend([x.n]); return L(C,x.n+1)
SEG=sym('SEG'); OLD=sym('OLD'); G += [SEG.n>=1, OLD.n>=1]
netloc=Bool('netloc')
trim = OLD.a[OLD.n-1]==EMPTY
old = L(OLD.a, If(trim, OLD.n-1, OLD.n))
parsed = concat(reverse(SEG), reverse(old))
inject = And(netloc, parsed.n>0, parsed.a[parsed.n-1]!=EMPTY)
# two paths: inject / not inject
def run(inj):
    cond = inject if inj else Not(inject)
    P = append(parsed, EMPTY) if inj else parsed
    F = reverse(P)
    j = Int('j'); off = 1 if inj else 0
    exp = lambda j: If(j<off, EMPTY, If(j-off<old.n, old.a[j-off], SEG.a[j-off-old.n]))
    neg = Or(F.n != off+old.n+SEG.n, And(0<=j, j<F.n, F.a[j]!=exp(j)))
    return [cond, neg]
def index_terms(fmls):
    out={}; seen=set()
    def walk(e):
        if e.get_id() in seen: return
        seen.add(e.get_id())
        if is_select(e): out[e.arg(1).get_id()]=e.arg(1)
        for ch in e.children(): walk(ch)
    for f in fmls: walk(f)
    return out
def prove(extra, rounds=4):
    ground=list(G)+extra; done=set()
    for rd in range(rounds):
        pool=index_terms(ground)
        for b in BOUNDS:
            b=simplify(b); pool[b.get_id()]=b
        new=[]
        for qi,fn in enumerate(QF):
            for tid,t in pool.items():
                if (qi,tid) in done: continue
                done.add((qi,tid)); new.append(fn(t))
        if not new: break
        ground+=new
    s=Solver(); s.set('timeout',60000); s.add(*ground)
    t=time.time(); r=s.check(); return r,len(ground),round(time.time()-t,2)
for inj in (False, True):
    nq=len(QF); nb=len(BOUNDS)
    print("inject" if inj else "no-inject", *prove(run(inj)))
    del QF[nq:]; del BOUNDS[nb:]
print("vacuity", *prove([BoolVal(True)]))
