# sanity: declarative unquoter spec (maximal-subpart verbatim) vs real Python + compiled unquoters
import random, codecs, re
from yarl import _quoting_py as P, _quoting_c as C
HEX = "0123456789abcdefABCDEF"
def spec(kw, s):
    ignore, unsafe, qs = kw.get("ignore", ""), kw.get("unsafe", ""), kw.get("qs", False)
    qd = P._Quoter(); qq = P._Quoter(qs=True)
    out = []; i = 0; n = len(s)
    def flush_run(run):  # run: list of (byte, text)
        if not run: return
        bs = bytes(b for b, _ in run); pos = 0
        while pos < len(bs):
            # decode maximal valid prefix
            try:
                txt = bs[pos:].decode("utf-8"); end = len(bs); err = None
            except UnicodeDecodeError as e:
                txt = bs[pos:pos+e.start].decode("utf-8"); end = pos + e.start; err = (pos + e.start, pos + e.end)
            for ch in txt:
                if qs and ch in "+=&;": out.append(qq(ch))
                elif ch in unsafe or ch in ignore: out.append(qd(ch))
                else: out.append(ch)
            if err is None: break
            a, b = err
            if b == a: b = a + 1
            out.append("".join(t for _, t in run[a:b])); pos = b
    run = []
    while i < n:
        ch = s[i]
        if ch == "%" and i + 2 < n + 0 and i + 1 <= n - 2 and s[i+1] in HEX and s[i+2] in HEX:
            run.append((int(s[i+1:i+3], 16), s[i:i+3])); i += 3; continue
        flush_run(run); run = []
        if ch == "+": out.append("+" if (not qs or "+" in unsafe) else " ")
        elif ch in unsafe: out.append("%" + hex(ord(ch)).upper()[2:])
        else: out.append(ch)
        i += 1
    flush_run(run)
    return "".join(out)
CFG = {"UNQUOTER": {}, "PATH_UNQUOTER": dict(unsafe="+"), "PATH_SAFE_UNQUOTER": dict(ignore="/%", unsafe="+"), "QS_UNQUOTER": dict(qs=True)}
toks = ["%", "%2", "%41", "%2F", "%25", "%2B", "%26", "%3D", "%C3", "%A9", "%E2", "%82", "%AC", "%F0", "%9F", "%98", "%80", "%ED", "%A0", "%C0", "%FF", "%f4", "%90", "a", "+", " ", "/", "é", "%zz", "&"]
rnd = random.Random(2); bad = {}; n = 0; pc = 0
for name, kw in CFG.items():
    up, uc = P._Unquoter(**kw), C._Unquoter(**kw)
    for _ in range(60000):
        x = "".join(rnd.choice(toks) for _ in range(rnd.randint(0, 7))); n += 1
        s = spec(kw, x); a = up(x); b = uc(x)
        if a != s: bad.setdefault((name, "py"), (x, a, s))
        if b != s: bad.setdefault((name, "c"), (x, b, s))
        if a != b: pc += 1; bad.setdefault((name, "py!=c"), (x, a, b))
print("cases", n, "py!=c", pc)
for k, v in bad.items(): print(k, v)
