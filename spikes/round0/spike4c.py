# feasibility: own instantiation of array-property quantifiers (Bradley-Manna style), QF result to z3
import time, itertools
from z3 import *
cnt=[0]
def fi(p='v'):
    cnt[0]+=1; return Int(f'{p}{cnt[0]}')
def fa(p='A'):
    cnt[0]+=1; return Array(f'{p}{cnt[0]}', IntSort(), IntSort())
G=[]   # ground hyps
BOUNDS=[]
QF=[]  # quantified hyps: (array, lambda k: formula)   -- fact about reads of `array` at k
class S:
    def __init__(s, arr, lo, hi): s.a, s.lo, s.hi = arr, lo, hi
    def len(s): return s.hi - s.lo
def sym(name):
    hi = Int(name+'_n'); G.append(hi>=0); return S(Array(name, IntSort(), IntSort()), IntVal(0), hi)
def lit(text):
    a = fa('L')
    for i,c in enumerate(text): G.append(a[i]==ord(c))
    return S(a,IntVal(0),IntVal(len(text)))
def concat(*parts0):
    parts=[]
    for p in parts0: parts.extend(getattr(p,'pieces',[p]))
    R = fa('C'); off = IntVal(0)
    for p in parts:
        QF.append((R, (lambda off,p: lambda k: Implies(And(off<=k, k<off+p.len()), R[k]==p.a[p.lo+k-off]))(off,p)))
        BOUNDS.extend([off, off+p.len()-1, off+p.len()])
        off = off + p.len()
    res = S(R, IntVal(0), simplify(off)); res.pieces=parts; return res
def find(s, c, frm=None):
    i=fi('f'); lo = s.lo if frm is None else frm
    G.append(Or(i==-1, And(lo<=i, i<s.hi, s.a[i]==c)))
    QF.append((s.a, lambda k: Implies(And(lo<=k, k<If(i==-1, s.hi, i)), s.a[k]!=c)))
    BOUNDS.extend([lo, s.hi-1, i, i-1, i+1])
    return i
def rfind(s, c):
    i=fi('r')
    G.append(Or(i==-1, And(s.lo<=i, i<s.hi, s.a[i]==c)))
    QF.append((s.a, lambda k: Implies(And(If(i==-1, s.lo-1, i)<k, k<s.hi), s.a[k]!=c)))
    BOUNDS.extend([s.lo, s.hi-1, i, i-1, i+1])
    return i
def nochar(s, cs):
    QF.append((s.a, lambda k: Implies(And(s.lo<=k,k<s.hi), And([s.a[k]!=ord(c) for c in cs]))))
    BOUNDS.extend([s.lo, s.hi-1])
def neq_goal(x,y):
    # negation of eq(x,y): lengths differ or exists k
    k=fi('sk'); return Or(x.len()!=y.len(), And(x.lo<=k, k<x.hi, x.a[k]!=y.a[y.lo+k-x.lo]))
AT, CO, LB, RB = 64, 58, 91, 93
user, pw, host, ps = sym('user'), sym('pw'), sym('host'), sym('ps')
G += [user.len()>0, host.len()>0, ps.len()>0]
nochar(user, ":@"); nochar(host, ":@[]"); nochar(ps, ":@[]")
ret = concat(host, lit(":"), ps)
ui = concat(user, lit(":"), pw)
netloc = concat(ui, lit("@"), ret)
r = rfind(netloc, AT)
userinfo = S(netloc.a, netloc.lo, r); hostinfo = S(netloc.a, r+1, netloc.hi)
c1 = find(userinfo, CO)
username = S(netloc.a, userinfo.lo, If(c1>=0, c1, userinfo.hi)); have_pw = c1>=0
password = S(netloc.a, If(c1>=0,c1+1,userinfo.hi), userinfo.hi)
lb = find(hostinfo, LB)
c2 = find(hostinfo, CO)
hostname = S(netloc.a, hostinfo.lo, If(c2>=0,c2,hostinfo.hi)); port_str = S(netloc.a, If(c2>=0,c2+1,hostinfo.hi), hostinfo.hi)
goals = {"found@": r<0, "nobracket": lb!=-1, "have_pw": Not(have_pw), "user": neq_goal(username,user), "pw": neq_goal(password,pw), "host": neq_goal(hostname,host), "port": neq_goal(port_str,ps)}

def index_terms(fmls):
    """collect (array, index) pairs of all Select terms"""
    out={}
    seen=set()
    def walk(e):
        if e.get_id() in seen: return
        seen.add(e.get_id())
        if is_select(e):
            out.setdefault(e.arg(0).get_id(), (e.arg(0), {}))[1][e.arg(1).get_id()] = e.arg(1)
        for ch in e.children(): walk(ch)
    for f in fmls: walk(f)
    return out
def prove(neg_goal, rounds=3):
    ground = list(G)+[neg_goal]
    done=set()
    for rd in range(rounds):
        it = index_terms(ground)
        pool={}
        for aid,(arr,d) in it.items(): pool.update(d)
        for b in BOUNDS:
            b=simplify(b); pool[b.get_id()]=b
        new=[]
        for qi,(arr, fn) in enumerate(QF):
            for tid, t in pool.items():
                if (qi,tid) in done: continue
                done.add((qi,tid)); new.append(fn(t))
        if not new: break
        ground += new
    s=Solver(); s.set("timeout",60000); s.add(*ground)
    t=time.time(); r=s.check(); return r, len(ground), round(time.time()-t,2)
for name,g in goals.items():
    print(name, *prove(g))
print("vacuity (should be sat):", *prove(BoolVal(True)))
