import pickle, traceback
from yarl import URL
from yarl import _quoting_py as P
try:
    from yarl import _quoting_c as C
except Exception as e:
    C=None; print("noC", e)
def t(label, f):
    try:
        print(label, '->', repr(f()))
    except Exception as e:
        print(label, '-> EXC', type(e).__name__, e)

# surrogate-only dirty
for mod in (P,C):
    q=mod._Quoter()
    t(mod.__name__+" quote surrogate", lambda: q("\ud800"))
    t(mod.__name__+" quote %+sur+41", lambda: q("%\ud80041"))
    t(mod.__name__+" quote a+sur", lambda: q("a\ud800"))
t("URL sur", lambda: str(URL("http://a/\ud800")))
t("bytes URL sur", lambda: bytes(URL("http://a/\ud800")))
# join with decoded base
t("join", lambda: str(URL("http://a/b%20c/d").join(URL("e"))))
t("join2", lambda: str(URL("http://a/b%2Fc/d").join(URL("e"))))
t("join3", lambda: str(URL("http://a/b%3Fc/d").join(URL("e"))))
# with_suffix on escaped
t("with_suffix", lambda: str(URL("http://a/b%20c.txt").with_suffix(".md")))
# bracket
t("[]", lambda: URL("http://[]"))
t("[]:80", lambda: URL("http://[]:80/"))
t("empty host port", lambda: URL("foo://:80").host_port_subcomponent)
t("empty host port raw_host", lambda: URL("foo://:80").raw_host)
t("empty host port raw_host pickled", lambda: pickle.loads(pickle.dumps(URL("foo://:80"))).raw_host)
t("str foo://:80", lambda: str(URL("foo://:80")))
t("foo://@", lambda: (URL("foo://@").raw_host, URL("foo://@").raw_user, pickle.loads(pickle.dumps(URL("foo://@"))).raw_host))
# ordering
a=URL("http://a"); b=URL("http://a/")
print("eq", a==b, "lt", a<b, "gt", a>b, "le", a<=b, hash(a)==hash(b))
# scheme digit first
t("1a:b", lambda: (URL("1a:b").scheme, URL("1a:b").path))
t("idna fallback upper", lambda: str(URL("http://ÄB_c.com")))
t("idna upper", lambda: URL("http://ExAmple.com").raw_host)
