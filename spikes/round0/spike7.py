# sanity: executable prototype of the token-level quoter spec vs the real Python + compiled quoters
import random, string, itertools
from yarl import _quoting_py as P, _quoting_c as C
UNRES = set(map(ord, string.ascii_letters + string.digits + "-._~")); SUB = set(map(ord, "!$&'()*+,;="))
LIT = {"user": UNRES | SUB, "password": UNRES | SUB | {58}, "path": UNRES | SUB | set(b":@/"), "query": UNRES | SUB | set(b":@/?"), "fragment": UNRES | SUB | set(b":@/?")}
DELIM = {"user": set(), "password": set(), "path": set(b"/+"), "query": set(b"=+&;"), "fragment": set()}
HEX = set(b"0123456789abcdefABCDEF")
CFG = {  # name: (kwargs, component)
 "QUOTER": (dict(requote=False), "user"), "REQUOTER": (dict(), "user"),
 "PATH_QUOTER": (dict(safe="@:", protected="/+", requote=False), "path"), "PATH_REQUOTER": (dict(safe="@:", protected="/+"), "path"),
 "QUERY_QUOTER": (dict(safe="?/:@", protected="=+&;", qs=True, requote=False), "query"), "QUERY_REQUOTER": (dict(safe="?/:@", protected="=+&;", qs=True), "query"),
 "QUERY_PART_QUOTER": (dict(safe="?/:@", qs=True, requote=False), "query"),
 "FRAGMENT_QUOTER": (dict(safe="?/:@", requote=False), "fragment"), "FRAGMENT_REQUOTER": (dict(safe="?/:@"), "fragment")}
def tin(kw, comp, x):
    b = x.encode("utf8", errors="ignore"); prot = set(kw.get("protected", "").encode()); qs = kw.get("qs", False); req = kw.get("requote", True)
    i = 0; toks = []
    while i < len(b):
        c = b[i]
        if req and c == 37 and i + 2 < len(b) and b[i+1] in HEX and b[i+2] in HEX:
            toks.append((int(b[i+1:i+3], 16), 0)); i += 3; continue
        if qs and c == 32: toks.append((0x20, 1))
        elif qs and c == 43 and 43 in prot: toks.append((0x20, 1))
        elif c in prot: toks.append((c, 1))
        else: toks.append((c, 0))
        i += 1
    return toks
def canon(comp, qs, t):
    v, f = t
    if f == 1: return "+" if (qs and v == 0x20) else chr(v)
    if v in LIT[comp] and v not in DELIM[comp]: return chr(v)
    return "%%%02X" % v
def spec(kw, comp, x): return "".join(canon(comp, kw.get("qs", False), t) for t in tin(kw, comp, x))
alpha = list("%%%%aAfF09gZ/+&=;?#:@ []~.é€😀\x00\x7f\"<") 
rnd = random.Random(1); bad = {}
n=0
for name, (kw, comp) in CFG.items():
    qp, qc = P._Quoter(**kw), C._Quoter(**kw)
    for _ in range(40000):
        x = "".join(rnd.choice(alpha) for _ in range(rnd.randint(0, 7)))
        s = spec(kw, comp, x); n+=1
        if qp(x) != s: bad.setdefault((name, "py"), (x, qp(x), s))
        if qc(x) != s: bad.setdefault((name, "c"), (x, qc(x), s))
print("cases", n); 
for k, v in bad.items(): print(k, v)
print("mismatches:", len(bad))
