# sanity: RFC 3986 5.2.2 (non-strict) vs URL.join on encoded components
import random
from urllib.parse import uses_relative
from yarl import URL
def rds(path):  # literal RFC 3986 5.2.4
    inp = path; out = ""
    while inp:
        if inp.startswith("../"): inp = inp[3:]
        elif inp.startswith("./"): inp = inp[2:]
        elif inp.startswith("/./"): inp = "/" + inp[3:]
        elif inp == "/.": inp = "/"
        elif inp.startswith("/../"):
            inp = "/" + inp[4:]; out = out[:out.rfind("/")] if "/" in out else ""
        elif inp == "/..":
            inp = "/"; out = out[:out.rfind("/")] if "/" in out else ""
        elif inp in (".", ".."): inp = ""
        else:
            j = inp.find("/", 1)
            if j < 0: j = len(inp)
            out += inp[:j]; inp = inp[j:]
    return out
def merge(bauth, bpath, rpath):
    if bauth and not bpath: return "/" + rpath
    return bpath[:bpath.rfind("/") + 1] + rpath
def resolve(B, R):
    bs, ba, bp, bq, bf = B; rs, ra, rp, rq, rf = R
    if rs and rs != bs: return R          # non-strict: same scheme treated as relative
    if ra: return (bs, ra, rds(rp), rq, rf)
    if not rp:
        return (bs, ba, bp, rq if rq else bq, rf)
    if rp.startswith("/"): p = rds(rp)
    else: p = rds(merge(ba, bp, rp))
    return (bs, ba, p, rq, rf)
def five(u): return (u.scheme, u.raw_authority, u._path, u.raw_query_string, u.raw_fragment)
segs = ["a", "b", ".", "..", "", "c%20d", "e%2Ff", "...", ".g", "x;p"]
def rpath(rnd, rooted=None):
    n = rnd.randint(0, 4); p = "/".join(rnd.choice(segs) for _ in range(n))
    if rooted is None: rooted = rnd.random() < 0.5
    return ("/" + p) if rooted else p
rnd = random.Random(4); bad = {}; N = 0
for _ in range(200000):
    bauth = rnd.choice(["h", "h", "u@h:81", ""]); bp = rpath(rnd, rooted=True if bauth else None)
    if bauth and bp == "/" and rnd.random() < .3: bp = ""
    bstr = "http:" + ("//" + bauth if bauth else "") + bp + rnd.choice(["", "?q", "?q=1&r"]) + rnd.choice(["", "#f"])
    if not bauth: continue   # http requires host in yarl; keep authority bases + scheme-less below
    rstr = rnd.choice(["", "", "http:", "//g", "//g:82"]) 
    if rstr.startswith("//") or rstr == "": rstr += rpath(rnd, rooted=True if rstr.startswith("//") else None) if rnd.random() < .8 else ""
    else: rstr += rpath(rnd)
    rstr += rnd.choice(["", "?y", "?"]) + rnd.choice(["", "#s", "#"])
    try:
        b = URL(bstr, encoded=True); r = URL(rstr, encoded=True)
        got = five(b.join(r))
    except Exception as e:
        bad.setdefault(("EXC", type(e).__name__), (bstr, rstr, str(e))); continue
    want = resolve(five(b), five(r)); N += 1
    if got != want:
        key = tuple(i for i in range(5) if got[i] != want[i])
        cls = (key, "esc" if "%" in bstr else "noesc", "emptyref" if not r._path else "path")
        bad.setdefault(cls, (bstr, rstr, got, want))
print("cases", N)
for k, v in sorted(bad.items(), key=str): print(k, v)
