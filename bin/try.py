import sys, json, time
sys.path.insert(0, '/verif')
from contracts.registry import CONTRACTS
from pyvc.verify import verify_contract
q = sys.argv[1]
t=time.time()
r = verify_contract(CONTRACTS[q], CONTRACTS)
print("paths", r["paths"], "combos", r["combos"], "unsupported", r["unsupported"], "inlined", r["inlined"], "callee", r["callee_contracts"])
from collections import Counter
print(Counter((o["kind"], o["status"]) for o in r["obligations"]))
for o in r["obligations"]:
    if o["status"] != "unsat":
        print(json.dumps({k: v for k, v in o.items()}, ensure_ascii=True)[:600])
print("slowest", sorted(((o["time_s"], o["name"]) for o in r["obligations"]), reverse=True)[:5])
print("wall", round(time.time()-t,1))
