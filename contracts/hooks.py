"""Engine-level hooks that give the opaque result of a contract the facts of a *proved lemma*
when the argument has a recognisable structure (the lemma is verified separately by the same
machinery; the hook only instantiates it)."""
import z3

from pyvc import values as V
from pyvc.values import NONE, VInt, VNone, VOpt, VStr, VTuple, lit


def _as_netloc_parts(pieces):
    """pieces of a concatenation -> candidate (user, password, host, port) values such that the
    text is make_netloc(user, password, host, port)"""
    ps = [p for _, p in pieces]
    at = [i for i, p in enumerate(ps) if p.conc == "@"]
    user = password = NONE
    rest = ps
    if at:
        i = at[-1]
        ui, rest = ps[:i], ps[i + 1:]
        if len(ui) == 1:
            user = ui[0]
        elif len(ui) == 3 and ui[1].conc == ":":
            user, password = ui[0], ui[2]
        elif len(ui) == 2 and ui[0].conc == ":":
            user, password = NONE, ui[1]
        elif len(ui) == 2 and ui[1].conc == ":":
            user, password = ui[0], lit("")
        elif len(ui) == 1 and ui[0].conc == ":":
            user, password = NONE, lit("")
        else:
            return None
    if len(rest) == 1:
        return user, password, rest[0], NONE
    if len(rest) == 3 and rest[1].conc == ":" and "itoa_of" in rest[2].tags:
        return user, password, rest[0], VInt(rest[2].tags["itoa_of"])
    if len(rest) == 2 and rest[0].conc == ":" and "itoa_of" in rest[1].tags:
        return user, password, lit(""), VInt(rest[1].tags["itoa_of"])
    return None


def split_netloc_roundtrip(ex, st, contract, full, raises, res):
    """instance of contracts.spec_parse.lemma_netloc_roundtrip for split_netloc(<assembled text>)"""
    from contracts import spec_parse
    from pyvc.verify import call_spec
    from pyvc.engine import Raised
    n = full[0]
    if not isinstance(n, VStr) or n.conc is not None:
        return
    cands = []
    if n.pieces is not None and z3.simplify(n.lo).get_id() == z3.IntVal(0).get_id():
        c = _as_netloc_parts(n.pieces)
        if c is not None:
            cands.append(c)
    else:
        cands.append((NONE, NONE, n, NONE))        # a bare host
    for user, password, host, port in cands:
        if not isinstance(host, VStr):
            continue
        args = [user, password, host, port]
        # the assembled text must be exactly what the executable make_netloc builds
        saved = ex.transparent
        ex.transparent = set(saved) | {"yarl._parse:make_netloc"}
        try:
            outs = list(call_spec(ex, st, ex.wrap(spec_parse.make_netloc), args, {}))
        finally:
            ex.transparent = saved
        if len(outs) != 1 or isinstance(outs[0][0], Raised) or outs[0][1] is not st:
            continue
        same = z3.simplify(V.str_eq(st.ctx, outs[0][0], n))
        if not z3.is_true(same):
            continue
        pre = list(call_spec(ex, st, ex.wrap(spec_parse.netloc_parts_ok), args, {}))
        if len(pre) != 1 or isinstance(pre[0][0], Raised) or pre[0][1] is not st:
            continue
        ok = ex.truth(st, pre[0][0])
        hv = list(call_spec(ex, st, ex.wrap(spec_parse.unbracket), [host], {}))
        if len(hv) != 1 or hv[0][1] is not st:
            continue
        h = hv[0][0]
        exp_user = NONE if isinstance(user, VNone) else VOpt(user.len() == 0, user)
        exp_host = VOpt(h.len() == 0, h)
        expected = VTuple([exp_user, password, exp_host, port])
        st.ctx.add(z3.Implies(ok, z3.And(z3.Not(raises), ex.equal(st, res, expected))))
        ex.lemmas_used.add("contracts.spec_parse:lemma_netloc_roundtrip")


# ---------------------------------------------------------------- Writer obligations (C19, C05)

BUF_SIZE = 8192


def writer_pre(ex, st, args):
    """WINV(writer): 0 <= pos <= size, size == size of the block, a multiple of BUF_SIZE, and the
    block is the static BUFFER exactly when size == BUF_SIZE (ghost: one live heap block otherwise)"""
    import z3
    w = args[0]
    blk = w.fields["buf"]
    size, pos = w.fields["size"].t, w.fields["pos"].t
    k = z3.Int("size_k")
    st.assume(z3.And(0 <= pos, pos <= size, size == blk.fields["size"].t, size == BUF_SIZE * k, k >= 1,
                     blk.fields["static"].t == (size == BUF_SIZE)))
    if len(args) > 1 and isinstance(args[1], VInt):
        st.assume(z3.And(args[1].t >= 0, args[1].t < 128))      # every call site passes an ASCII character
    st.ghost["live"] = VInt(z3.If(blk.fields["static"].t, 0, 1))
    return {"pos": pos, "size": size, "changed": w.fields["changed"].t, "mem": blk.fields["mem"].obj,
            "static": blk.fields["static"].t, "live": st.ghost["live"].t, "blk": blk}


def write_char_post(ex, st, pre, flow, val, args):
    """_write_char: returns 0 with the character appended (earlier content preserved), the flag
    or-ed and WINV kept; or returns -1 with MemoryError pending and the writer as it was"""
    import z3
    from pyvc import values as V
    w = st.tr(args[0])
    ch, changed = args[1], args[2]
    blk = w.fields["buf"]
    size, pos, chg = w.fields["size"].t, w.fields["pos"].t, w.fields["changed"].t
    mem = blk.fields["mem"].obj
    live = st.ghost["live"].t
    if flow != "return":
        ex.oblige(st, "_write_char:terminates-by-return", "post", z3.BoolVal(False), None, {})
        return
    rc = val.t
    winv = z3.And(0 <= pos, pos <= size, size == blk.fields["size"].t, size % BUF_SIZE == 0, size >= BUF_SIZE,
                  blk.fields["static"].t == (size == BUF_SIZE), live == z3.If(blk.fields["static"].t, 0, 1))
    ex.oblige(st, "_write_char:returns-0-or--1", "post", z3.Or(rc == 0, rc == -1), None, {})
    ex.oblige(st, "_write_char:writer-invariant-kept(size,pos,block,one-live-heap-block-iff-grown)", "post", winv, None, {})
    cht = changed.t if hasattr(changed.t, "sort") and changed.t.sort().name() == "Bool" else (changed.t != 0)
    old_changed = pre["changed"]
    ok = z3.And(pos == pre["pos"] + 1,
                (chg != 0) == z3.Or(old_changed != 0, cht),
                mem[pre["pos"]] == ch.t,
                V.str_eq(st.ctx, V.VStr(mem, 0, pre["pos"], kind="bytes"), V.VStr(pre["mem"], 0, pre["pos"], kind="bytes")))
    ex.oblige(st, "_write_char:on-success-char-appended,content-preserved,flag-or-ed", "post", z3.Implies(rc == 0, ok), None, {})
    fail = z3.And(pos == pre["pos"], size == pre["size"], chg == old_changed, blk.fields["static"].t == pre["static"],
                  z3.BoolVal(getattr(st, "pending_exc", None) is MemoryError))
    ex.oblige(st, "_write_char:on-failure-MemoryError-set-writer-unchanged", "post", z3.Implies(rc == -1, fail), None, {})


# ---------------------------------------------------------------- __setstate__ (C09)

def setstate_pre(ex, st, args):
    return {"state": args[1]}


def setstate_post(ex, st, pre, flow, val, args):
    """after __setstate__ the five slots are the pickled parts and the memo is empty, for both
    state shapes (the tuple written by __getstate__ and the default-protocol dict)"""
    import z3
    from pyvc import values as V
    obj = st.tr(args[0])
    state = pre["state"]
    parts = state.items[0] if not isinstance(state.items[0], VNone) else state.items[1].d["_val"]
    if flow != "return":
        ex.oblige(st, "__setstate__:returns", "post", z3.BoolVal(False), None, {})
        return
    names = ("_scheme", "_netloc", "_path", "_query", "_fragment")
    ok = []
    for n, p in zip(names, parts.items):
        f = obj.fields.get(n)
        ok.append(z3.BoolVal(False) if f is None else ex.equal(st, f, p))
    ex.oblige(st, "__setstate__:slots-are-the-pickled-parts", "post", z3.And(ok), None, {})
    c = obj.fields.get("_cache")
    ex.oblige(st, "__setstate__:memo-is-empty", "post", z3.BoolVal(isinstance(c, V.VDict) and not c.d), None, {})


# ---------------------------------------------------------------- normalize_path_segments (C15)

def nps_pre(ex, st, args):
    return {"segments": args[0]}


def nps_post(ex, st, pre, flow, val, args):
    """C15 over segments: the result has no '.'/'..' element; a list without dot segments is
    returned unchanged (idempotence); a final dot segment leaves a trailing empty segment"""
    import z3
    from pyvc import values as V
    from pyvc.lib import as_seglist, _not_dot
    if flow != "return":
        ex.oblige(st, "normalize_path_segments:returns", "post", z3.BoolVal(False), None, {})
        return
    res = as_seglist(st.ctx, val).view
    seg = st.tr(pre["segments"]).view
    n = seg.len()
    ex.oblige(st, "nps:result-has-no-dot-segment", "post", V.all_in(st.ctx, res, _not_dot, "nodots"), None, {})
    nod = V.all_in(st.ctx, seg, _not_dot, "nodots")
    ex.oblige(st, "nps:no-dot-segment-in-input=>result-is-the-input(idempotent)", "post",
              z3.Implies(nod, V.str_eq(st.ctx, res, seg)), None, {})
    last = seg.a[V.name_term(st.ctx, seg.hi - 1, "li")]
    trailing = z3.And(n > 0, z3.Or(last == 1, last == 2))
    rl = res.a[V.name_term(st.ctx, res.hi - 1, "li")]
    ex.oblige(st, "nps:final-dot-segment=>trailing-empty-segment", "post",
              z3.Implies(trailing, z3.And(res.len() > 0, rl == 0)), None, {})
    ex.oblige(st, "nps:result-not-longer-than-input-plus-one", "post", res.len() <= n + 1, None, {})


def nps_abstract(ex, st, args, kwargs, node):
    """normalize_path_segments at a call site: an opaque function of the argument list with the
    postconditions proved for the function itself"""
    import z3
    from pyvc import values as V
    from pyvc.lib import as_seglist, _not_dot, _memo, _skey
    if type(args[0]).__name__ == "VPList":
        # string-level split lists (pyvc/plist.py) have no model of the segment algorithm: the call
        # must be unreachable under the caller's precondition (else the contract is undecided)
        ex.unreachable_or_undecided(st, "normalize_path_segments on a string-level split list", node)
        return
    seg = as_seglist(st.ctx, args[0]).view
    key = ("nps",) + _skey(seg)
    m = _memo(st.ctx)
    if key not in m:
        res = V.fresh_str(st.ctx, "nps", "segs")
        st.ctx.add(V.all_in(st.ctx, res, _not_dot, "nodots"))
        st.ctx.add(z3.Implies(V.all_in(st.ctx, seg, _not_dot, "nodots"), V.str_eq(st.ctx, res, seg)))
        st.ctx.add(res.len() <= seg.len() + 1)
        m[key] = res
    yield V.VSList(m[key], fresh=True), st


# ---------------------------------------------------------------- _Quoter._do_quote_or_skip (fast path, buffer release)

def skip_pre(ex, st, args):
    from pyvc.values import VBool, VInt
    st.ghost["live"] = VInt(0)
    st.ghost["quoted"] = VBool(False)
    return {}


def skip_post(ex, st, pre, flow, val, args):
    """at every exit no heap block is left allocated; a value returned without going through
    _do_quote is the argument itself and consists of skippable characters only (which the
    specification leaves alone: contracts.spec_quote.lemma_skippable_is_fixed)"""
    import z3
    from pyvc import values as V
    from contracts import spec_quote
    live = st.ghost.get("live")
    ex.oblige(st, f"_do_quote_or_skip:no-heap-block-leaks[{flow}]", "post", live.t == 0, None, {})
    if flow != "return":
        return
    quoted = st.ghost.get("quoted")
    self_, text = args[0], args[1]
    name = spec_quote.INSTANCE_NAME[id(self_.obj)]
    codes = spec_quote.skippable_codes(name)
    same = z3.BoolVal(val is text)
    allsafe = V.all_in(st.ctx, text, lambda t: V.in_set(t, codes), "skippable")
    ex.oblige(st, "_do_quote_or_skip:returned-without-quoting=>argument-itself", "post", z3.Or(quoted.t, same), None, {})
    ex.oblige(st, "_do_quote_or_skip:returned-without-quoting=>all-characters-skippable", "post",
              z3.Or(quoted.t, allsafe), None, {"lemma": "contracts.spec_quote:lemma_skippable_is_fixed"})
