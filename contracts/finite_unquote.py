"""Finite obligations behind the decoder proof (C06).

1. The unquoters' inner quoters (`_Unquoter._quoter`, `_Unquoter._qs_quoter`, real objects of
   both back ends) on every single ASCII character equal contracts.spec_unquote.requote_one --
   the model the symbolic proof uses at their call sites.
2. The library contract of the incremental UTF-8 decoder used in the proof (decode of one byte
   after 0..3 held-back bytes: complete / held back / error, buffer unchanged on error; ED A0..BF is held back until the third byte) is
   compared with the real codecs decoder on every byte sequence of length <= 2 and on all
   sequences of length 3 and 4 whose first bytes are a proper prefix (exhaustive over the
   continuation ranges' boundaries +-1 and 16 representatives) -- a conformance check of an
   assumed library contract, reported as such.
"""
from __future__ import annotations

import codecs
import itertools
import time

from .finite import register
from . import spec_unquote as su


def _rec(name, ok, where, detail, cases, t, replay=None, kind="finite"):
    r = {"name": name, "kind": kind, "status": "unsat" if ok else "sat", "backend": "finite", "where": where,
         "time_s": round(time.time() - t, 3), "ground": cases, "info": {"detail": detail}, "function": where,
         "exhaustive": True}
    if replay:
        r["replay"] = replay
    return r


def _status(bs):
    return su.dec_status(bs)


def _real_status(bs):
    d = codecs.getincrementaldecoder("utf-8")()
    for b in bs[:-1]:
        if d.decode(bytes([b])) != "":
            return None          # not reachable: the earlier bytes were not a proper prefix
    before = d.buffer
    try:
        out = d.decode(bytes([bs[-1]]))
    except UnicodeDecodeError:
        return "error" if d.buffer == before else "error-buffer-changed"
    if out == "":
        return "prefix" if d.buffer == bytes(bs) else "prefix-wrong-buffer"
    return "complete" if (d.buffer == b"" and len(out) == 1) else "complete-wrong"


@register("C06")
def run(tier, seed):
    out = []
    t = time.time()
    bad = []
    from .registry import PY_UNQUOTERS
    insts = list(PY_UNQUOTERS.values())
    try:
        import yarl._quoting_c as qc
        insts += [qc._Unquoter(), qc._Unquoter(qs=True)]
    except ImportError:
        pass
    n = 0
    for inst in insts:
        for qs, attr in ((False, "_quoter"), (True, "_qs_quoter")):
            q = getattr(inst, attr, None)
            if q is None:
                continue
            for c in ((43, 61, 38, 59) if qs else range(128)):      # the arguments the call sites can pass
                n += 1
                want = "".join(chr(x) for x in su.requote_one(c, qs))
                got = q(chr(c))
                if got != want:
                    bad.append((type(inst).__module__, attr, c, got, want))
    out.append(_rec("the unquoters' inner quoters on one ASCII character == requote_one (literal or %HH)", not bad,
                    "yarl._quoting_py:_Unquoter.__init__", str(bad[:3]), n, t,
                    replay={"inputs": {"character": chr(bad[0][2]), "attribute": bad[0][1]}, "observed": bad[0][3], "agrees": False} if bad else None))
    t = time.time()
    bad = []
    n = 0
    reps = sorted(set([0, 0x41, 0x7F, 0x80, 0x8F, 0x90, 0x9F, 0xA0, 0xBF, 0xC0, 0xC1, 0xC2, 0xDF, 0xE0, 0xE1, 0xEC, 0xED, 0xEE, 0xEF,
                       0xF0, 0xF1, 0xF3, 0xF4, 0xF5, 0xFF, 0x25]))
    seqs = [(a,) for a in range(256)] + [(a, b) for a in range(256) for b in range(256)]
    seqs += [(a, b, c) for a in range(0xE0, 0xF5) for b in reps for c in reps]
    seqs += [(a, b, c, d) for a in range(0xF0, 0xF5) for b in reps for c in reps for d in reps]
    for bs in seqs:
        if len(bs) > 1 and _status(bs[:-1]) != "prefix":
            continue
        n += 1
        real = _real_status(bs)
        if real is None:
            bad.append((bs, "spec says prefix, real decoder produced output earlier"))
        elif real != _status(bs):
            bad.append((bs, real, _status(bs)))
    out.append(_rec("library contract of the incremental UTF-8 decoder (complete / proper prefix / error with buffer kept) "
                    "== codecs' decoder, all sequences of <= 2 bytes and boundary representatives of 3 and 4 bytes",
                    not bad, "codecs.getincrementaldecoder('utf-8')", str(bad[:3]), n, t, kind="conformance",
                    replay={"inputs": {"bytes": list(bad[0][0])}, "observed": str(bad[0][1:]), "agrees": False} if bad else None))
    return out
