"""Witnesses of the recorded known findings: each exits non-zero while the defect is present."""
import sys


def c05_surrogate_in_escape():
    from yarl._quoting_py import _Quoter as Py
    from pyvc import replay
    mod = replay.build_extension()
    a, b = Py()("%\ud80041"), mod._Quoter()("%\ud80041")
    print("python:", repr(a), "compiled:", repr(b))
    return 0 if a == b else 1


def c04_password_colon():
    from yarl import URL
    s = "http://u:p:q@h/"
    print(repr(str(URL(s))))
    return 0 if str(URL(s)) == s else 1


WITNESSES = {"C05-surrogate-in-escape": c05_surrogate_in_escape, "C04-password-colon": c04_password_colon}

if __name__ == "__main__":
    sys.path.insert(0, ".")
    sys.exit(WITNESSES[sys.argv[1]]())
