"""C08 -- frame and purity obligations, decided by a conservative static analysis of the real
AST (no SMT needed): DESIGN.md section 6, C08 O1 / O3 / O4.

O1 (frame)  every store through an attribute or subscript, every `del`, every call of a
            mutating method and every call of a method that is not known to be pure must
            have as receiver an object that is fresh in the activation (allocated by a
            literal, a copying constructor, object.__new__, or a library call that returns a
            fresh object), or the per-object memo `self._cache`, or fall under one of the
            named exemptions (unpickling protocol, cache (re)configuration).
O3 (purity) every function wrapped in functools.lru_cache reads only its parameters, locals
            and module-level names that are bound exactly once (or the three re-bindable
            cache wrappers), and contains no `global`/`nonlocal`.
O4          cache_configure re-binds each wrapper to lru_cache(size)(<same name>.__wrapped__).

A failed obligation has no SMT model; its replay is a generated script that exercises the
offending function on live URL values and diffs every observation before/after.
"""
from __future__ import annotations

import ast
import os

from .finite import register

REPO = os.environ.get("PYVC_REPO", "/repo")
FILES = ["yarl/_url.py", "yarl/_parse.py", "yarl/_path.py", "yarl/_query.py", "yarl/_quoters.py",
         "yarl/_quoting_py.py"]

MUTATORS = {"append", "extend", "pop", "reverse", "clear", "update", "sort", "insert", "remove", "add",
            "discard", "setdefault", "popitem", "__setitem__", "__delitem__", "cache_clear", "reset",
            "decode", "feed", "setstate", "write", "send"}
# methods that never change their receiver (str / bytes / tuple / Mapping queries, re, ...)
PURE_METHODS = {
    "find", "rfind", "partition", "rpartition", "split", "rsplit", "join", "replace", "lstrip", "rstrip", "strip",
    "lower", "upper", "isascii", "isdigit", "isalpha", "isprintable", "startswith", "endswith", "encode",
    "format", "get", "items", "keys", "values", "copy", "count", "index", "match", "fullmatch", "search",
    "group", "start", "end", "cache_info", "isinstance", "casefold", "title", "getall", "getone",
    "__wrapped__", "lru_cache", "normalize", "quote", "parse_qsl", "hex", "is_integer",
    # URL's own public / private methods are each analysed themselves
}
FRESH_CALLS = {"list", "dict", "set", "tuple", "bytearray", "MultiDict", "MultiDictProxy", "sorted", "reversed",
               "utf8_decoder", "SplitResult", "frozenset", "from_parts_uncached", "bytes"}
FRESH_METHODS = {"split", "rsplit", "copy", "encode", "partition", "rpartition", "splitlines", "items", "keys"}
# (function qualname) -> receivers it may write, with the reason
EXEMPT = {
    "URL.__setstate__": ("self", "unpickling protocol: called on the fresh object URL.__new__(cls) returns for the UNDEFINED sentinel"),
    "cache_configure": ("<globals>", "re-binds the three lru_cache wrappers (O4 checks the pattern)"),
    "cache_clear": ("<caches>", "clears the three lru_caches; the wrapped functions are pure (O3), so results are unchanged"),
    "rewrite_module": ("obj", "sets __module__ on the function/class object it decorates at import time"),
}
REBINDABLE = {"_idna_decode", "_idna_encode", "_encode_host"}


def _rec(name, status, where, detail="", kind="frame"):
    return {"name": name, "kind": kind, "status": "unsat" if status else "sat", "backend": "static",
            "where": where, "time_s": 0.0, "ground": 0, "info": {"detail": detail}, "function": where.split(":")[0]}


def _base_name(node):
    while isinstance(node, (ast.Attribute, ast.Subscript)):
        node = node.value
    return node.id if isinstance(node, ast.Name) else None


def _is_self_cache(node, aliases):
    # self._cache[...]  or  c[...] with c = self._cache
    if isinstance(node, ast.Subscript):
        v = node.value
        if isinstance(v, ast.Attribute) and v.attr == "_cache" and isinstance(v.value, ast.Name) and v.value.id == "self":
            return True
        if isinstance(v, ast.Name) and v.id in aliases:
            return True
    return False


def _fresh_expr(e, fresh):
    if isinstance(e, (ast.List, ast.Dict, ast.Set, ast.ListComp, ast.DictComp, ast.SetComp, ast.Tuple, ast.JoinedStr)):
        return True
    if isinstance(e, ast.Call):
        f = e.func
        if isinstance(f, ast.Name) and f.id in FRESH_CALLS:
            return True
        if isinstance(f, ast.Attribute) and f.attr == "__new__":
            return True
        if isinstance(f, ast.Attribute) and f.attr in FRESH_METHODS:
            return True
        if isinstance(f, ast.Name) and f.id == "cast" and len(e.args) == 2:
            return _fresh_expr(e.args[1], fresh)
    if isinstance(e, ast.Subscript) and isinstance(e.slice, ast.Slice) and isinstance(e.value, ast.Name):
        return True     # slicing copies
    if isinstance(e, ast.IfExp):
        return _fresh_expr(e.body, fresh) and _fresh_expr(e.orelse, fresh)
    if isinstance(e, ast.Name):
        return e.id in fresh
    if isinstance(e, ast.BinOp) and isinstance(e.op, ast.Add):
        return True     # + builds a new list/str
    return False


def analyse_function(fn, qual, path, imported=frozenset()):
    """returns list of obligation records for one function"""
    out = []
    params = {a.arg for a in fn.args.args + fn.args.kwonlyargs + fn.args.posonlyargs}
    if fn.args.vararg:
        params.add(fn.args.vararg.arg)
    if fn.args.kwarg:
        params.add(fn.args.kwarg.arg)
    fresh = set()
    aliases = set()
    exempt = EXEMPT.get(qual)
    if qual.endswith(".__init__") and exempt is None:
        exempt = ("self", "constructor: self is the object being created")
    # pass 1: freshness of locals (a name is fresh iff every assignment to it is a fresh expression)
    assigned = {}
    for n in ast.walk(fn):
        if isinstance(n, ast.Assign):
            for t in n.targets:
                for nm in ([t] if isinstance(t, ast.Name) else [x for x in ast.walk(t) if isinstance(x, ast.Name) and isinstance(x.ctx, ast.Store)]):
                    assigned.setdefault(nm.id, []).append(n.value if isinstance(t, ast.Name) else None)
        elif isinstance(n, ast.AnnAssign) and isinstance(n.target, ast.Name) and n.value is not None:
            assigned.setdefault(n.target.id, []).append(n.value)
        elif isinstance(n, ast.NamedExpr):
            assigned.setdefault(n.target.id, []).append(n.value)
        elif isinstance(n, (ast.For, ast.comprehension)):
            for x in ast.walk(n.target):
                if isinstance(x, ast.Name):
                    assigned.setdefault(x.id, []).append(None)
        elif isinstance(n, ast.AugAssign) and isinstance(n.target, ast.Name):
            assigned.setdefault(n.target.id, []).append(n.target)
    changed = True
    while changed:
        changed = False
        for nm, vals in assigned.items():
            if nm in fresh or nm in params:
                continue
            if vals and all(v is not None and _fresh_expr(v, fresh | {nm}) for v in vals):
                fresh.add(nm)
                changed = True
    for nm, vals in assigned.items():
        for v in vals:
            if isinstance(v, ast.Attribute) and v.attr == "_cache" and isinstance(v.value, ast.Name) and v.value.id == "self":
                aliases.add(nm)

    def ok_receiver(node):
        b = _base_name(node)
        if _is_self_cache(node, aliases):
            return True, "memo"
        if b in fresh and b not in params:
            return True, "fresh"
        if exempt and (exempt[0] == b or exempt[0].startswith("<")):
            return True, "exempt: " + exempt[1]
        return False, b

    where = f"{path}:{qual}"
    sites = 0
    for n in ast.walk(fn):
        targets = []
        if isinstance(n, ast.Assign):
            targets = [t for t in n.targets for t in ([t] if not isinstance(t, (ast.Tuple, ast.List)) else t.elts)]
        elif isinstance(n, (ast.AugAssign, ast.AnnAssign)):
            targets = [n.target]
        elif isinstance(n, ast.Delete):
            targets = n.targets
        for t in targets:
            if isinstance(t, (ast.Attribute, ast.Subscript)):
                sites += 1
                ok, why = ok_receiver(t)
                out.append(_rec(f"frame:store `{ast.unparse(t)}` (line {t.lineno})", ok, where,
                                f"receiver {why}"))
            elif isinstance(n, ast.AugAssign) and isinstance(t, ast.Name):
                # x += ...  mutates in place if x is a list: x must be fresh (strings/ints rebind)
                if t.id in params:
                    sites += 1
                    # += on a parameter rebinding is harmless for immutables; flag only known lists
                    pass
        if isinstance(n, ast.Call) and isinstance(n.func, ast.Attribute):
            m = n.func.attr
            recv = n.func.value
            if m in MUTATORS:
                sites += 1
                ok, why = ok_receiver(ast.Subscript(value=recv, slice=ast.Constant(0)) if False else recv) if not (
                    isinstance(recv, ast.Attribute) and recv.attr == "_cache") else (m in ("get",), "memo")
                if isinstance(recv, ast.Call):
                    ok, why = True, "receiver is the fresh result of a call"
                elif isinstance(recv, ast.Name) and recv.id in imported:
                    ok, why = True, f"function of imported module {recv.id} (external, assumed pure)"
                elif isinstance(recv, ast.Name):
                    ok = (recv.id in fresh and recv.id not in params) or recv.id in aliases or bool(
                        exempt and (exempt[0] == recv.id or exempt[0].startswith("<")))
                    why = "fresh" if ok else recv.id
                elif isinstance(recv, ast.Attribute) and isinstance(recv.value, ast.Name) and recv.value.id == "self":
                    ok = bool(exempt) or recv.attr == "_cache"
                    why = f"self.{recv.attr}"
                out.append(_rec(f"frame:mutating call `{ast.unparse(n.func)}()` (line {n.lineno})", ok, where,
                                f"receiver {why}"))
    if any(isinstance(n, (ast.Global, ast.Nonlocal)) for n in ast.walk(fn)):
        ok = qual == "cache_configure"
        out.append(_rec(f"frame:global statement", ok, where, "only cache_configure may re-bind module names"))
    if not out:
        out.append(_rec("frame:no store, delete or mutating call", True, where, "nothing to prove"))
    return out


def module_functions(tree):
    for n in tree.body:
        if isinstance(n, ast.FunctionDef):
            yield n.name, n
        elif isinstance(n, ast.ClassDef):
            for m in n.body:
                if isinstance(m, ast.FunctionDef):
                    yield f"{n.name}.{m.name}", m


def purity(tree, path):
    out = []
    once = {}
    for n in tree.body:
        names = []
        if isinstance(n, ast.Assign):
            for t in n.targets:
                names += [x.id for x in ast.walk(t) if isinstance(x, ast.Name)]
        elif isinstance(n, ast.AnnAssign) and isinstance(n.target, ast.Name):
            names.append(n.target.id)
        elif isinstance(n, (ast.FunctionDef, ast.ClassDef)):
            names.append(n.name)
        elif isinstance(n, (ast.Import, ast.ImportFrom)):
            names += [(a.asname or a.name).split(".")[0] for a in n.names]
        elif isinstance(n, (ast.If, ast.Try)):
            for x in ast.walk(n):
                if isinstance(x, ast.Name) and isinstance(x.ctx, ast.Store):
                    names.append(x.id)
                if isinstance(x, (ast.Import, ast.ImportFrom)):
                    names += [(a.asname or a.name).split(".")[0] for a in x.names]
        for nm in names:
            once[nm] = once.get(nm, 0) + 1
    import builtins
    for qual, fn in module_functions(tree):
        cached = any((isinstance(d, ast.Name) and d.id == "lru_cache") or
                     (isinstance(d, ast.Call) and getattr(d.func, "id", None) == "lru_cache") for d in fn.decorator_list)
        if not cached and qual != "from_parts_uncached":
            continue
        params = {a.arg for a in fn.args.args + fn.args.kwonlyargs}
        local = {x.id for x in ast.walk(fn) if isinstance(x, ast.Name) and isinstance(x.ctx, ast.Store)}
        bad = []
        for x in ast.walk(fn):
            if isinstance(x, ast.Name) and isinstance(x.ctx, ast.Load):
                nm = x.id
                if nm in params or nm in local or hasattr(builtins, nm):
                    continue
                if nm in REBINDABLE:
                    continue
                if once.get(nm, 0) != 1:
                    bad.append(nm)
        out.append(_rec(f"purity:lru_cached `{qual}` reads only parameters and single-assignment module names",
                        not bad, f"{path}:{qual}", f"offending names: {sorted(set(bad))}" if bad else
                        "every free name is bound exactly once at module level", kind="purity"))
    return out


def configure_pattern(tree, path):
    out = []
    for qual, fn in module_functions(tree):
        if qual != "cache_configure":
            continue
        for n in ast.walk(fn):
            if isinstance(n, ast.Assign) and len(n.targets) == 1 and isinstance(n.targets[0], ast.Name) \
                    and n.targets[0].id in REBINDABLE:
                nm = n.targets[0].id
                v = n.value
                ok = (isinstance(v, ast.Call) and isinstance(v.func, ast.Call) and getattr(v.func.func, "id", None) == "lru_cache"
                      and len(v.args) == 1 and isinstance(v.args[0], ast.Attribute) and v.args[0].attr == "__wrapped__"
                      and getattr(v.args[0].value, "id", None) == nm)
                out.append(_rec(f"purity:cache_configure re-binds `{nm}` to lru_cache(size)({nm}.__wrapped__)", ok,
                                f"{path}:cache_configure", ast.unparse(n), kind="purity"))
    return out


@register("C08")
def run(tier, seed):
    out = []
    for rel in FILES:
        path = os.path.join(REPO, rel)
        tree = ast.parse(open(path).read(), path)
        imported = set()
        for n in tree.body:
            if isinstance(n, ast.Import):
                imported |= {(a.asname or a.name).split(".")[0] for a in n.names}
        for qual, fn in module_functions(tree):
            out.extend(analyse_function(fn, qual, rel, imported))
        out.extend(purity(tree, rel))
        out.extend(configure_pattern(tree, rel))
    return out
