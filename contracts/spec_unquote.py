"""Executable specification of percent-decoding (C06): a token-level step function, like the one of
the quoters (contracts/spec_quote.py).

A token that starts at position p of the text S is
  * a *decoded sequence*: 1 to 4 consecutive escapes '%XX' whose bytes form one well-formed UTF-8
    sequence (Unicode Table 3-7: no overlong forms, no surrogates, at most U+10FFFF); it stands for
    that character -- which is written as is, unless the configuration keeps it escaped;
  * a *verbatim escape*: an escape that does not start such a sequence is copied unchanged
    (three characters, original hex case);
  * one literal character ('+' is a space in a query).
Configuration (ignore, unsafe, qs) is read from the real instances of yarl/_quoters.py.
"""
from __future__ import annotations

from .spec_quote import code_at, hexch, hexval, unit_is_input  # noqa: F401

INSTANCE_CFG = {}      # id(instance) -> (ignore, unsafe, qs), filled by the registry from the real objects
INSTANCE_NAME = {}

# what a decoded character that must stay escaped is re-written to (the unquoter re-quotes it as
# generic component text): unreserved and sub-delims stay, everything else is %HH
GENERIC_LITERALS = "abcdefghijklmnopqrstuvwxyzABCDEFGHIJKLMNOPQRSTUVWXYZ0123456789-._~!$'()*,+&=;"


def config_of(unq):
    return INSTANCE_CFG[id(unq)]


def utf8_need(b0):
    """number of continuation bytes a lead byte asks for; -1 if the byte cannot start a sequence
    (written as one expression: the loop invariant evaluates it without forking)"""
    return (0 if b0 < 128 else (1 if (194 <= b0 and b0 <= 223) else (2 if (224 <= b0 and b0 <= 239)
            else (3 if (240 <= b0 and b0 <= 244) else -1))))


def cont_ok(b0, i, b):
    """is b acceptable as the i-th continuation byte (i >= 1) after lead byte b0 (Table 3-7)"""
    return ((160 <= b and b <= 191) if (i == 1 and b0 == 224) else
            ((128 <= b and b <= 159) if (i == 1 and b0 == 237) else
             ((144 <= b and b <= 191) if (i == 1 and b0 == 240) else
              ((128 <= b and b <= 143) if (i == 1 and b0 == 244) else (128 <= b and b <= 191)))))


def cont_held(b0, i, b):
    """what CPython's incremental decoder accepts as i-th continuation byte *while the sequence is
    still incomplete*: the strict rule, except that after the lead byte ED it holds back A0..BF as
    well (the surrogate range is rejected only when the third byte arrives)"""
    return ((128 <= b and b <= 191) if (i == 1 and b0 == 237) else cont_ok(b0, i, b))


def hexv(c):
    return (c - 48 if (48 <= c and c <= 57) else (c - 55 if (65 <= c and c <= 70) else (c - 87 if (97 <= c and c <= 102) else -1)))


def esc_at(S, p):
    """byte value of an escape '%XX' at p (two hex digits of either case, entirely inside S); -1 if none"""
    return ((hexv(code_at(S, p + 1)) * 16 + hexv(code_at(S, p + 2)))
            if (0 <= p and p + 2 < len(S) and code_at(S, p) == 37
                and hexv(code_at(S, p + 1)) >= 0 and hexv(code_at(S, p + 2)) >= 0)
            else -1)


def pct(v):
    return (37, hexch(v // 16), hexch(v % 16))


def requote_one(c, qs):
    """the unquoter's inner quoters applied to one ASCII character: literal if it is a literal of
    generic component text (in query-string mode '+', '&', '=', ';' are not), else %HH"""
    if c < 128 and chr(c) in GENERIC_LITERALS and not (qs and (c == 43 or c == 38 or c == 61 or c == 59)):
        return (c,)
    return pct(c)


def policy(unq, cp):
    """how a decoded character is written: significant characters of the component stay escaped"""
    ignore, unsafe, qs = config_of(unq)
    if qs and (cp == 43 or cp == 61 or cp == 38 or cp == 59):
        return requote_one(cp, True)
    if cp < 128 and (chr(cp) in unsafe or chr(cp) in ignore):
        return requote_one(cp, False)
    return (cp,)


def u_step(unq, S, p):
    """(unit, consumed) for the token that starts at position p of S"""
    ignore, unsafe, qs = config_of(unq)
    ch = code_at(S, p)
    b0 = esc_at(S, p)
    if b0 >= 0:
        need = utf8_need(b0)
        if need == 0:
            return policy(unq, b0), 3
        if need > 0:
            b1 = esc_at(S, p + 3)
            if b1 >= 0 and cont_ok(b0, 1, b1):
                if need == 1:
                    return policy(unq, (b0 - 192) * 64 + (b1 - 128)), 6
                b2 = esc_at(S, p + 6)
                if b2 >= 0 and cont_ok(b0, 2, b2):
                    if need == 2:
                        return policy(unq, (b0 - 224) * 4096 + (b1 - 128) * 64 + (b2 - 128)), 9
                    b3 = esc_at(S, p + 9)
                    if b3 >= 0 and cont_ok(b0, 3, b3):
                        return policy(unq, (b0 - 240) * 262144 + (b1 - 128) * 4096 + (b2 - 128) * 64 + (b3 - 128)), 12
        return (37, code_at(S, p + 1), code_at(S, p + 2)), 3
    if ch == 43:
        if qs and not ("+" in unsafe):
            return (32,), 1
        return (43,), 1
    if ch < 128 and chr(ch) in unsafe:
        return pct(ch), 1
    return (ch,), 1


def u_spec(unq, val):
    """the whole decoder, executable (replay oracle)"""
    if val is None:
        return None
    if not isinstance(val, str):
        raise TypeError("Argument should be str")
    out = []
    p = 0
    while p < len(val):
        unit, k = u_step(unq, val, p)
        out.extend(unit)
        p += k
    return "".join(chr(c) for c in out)


def pending_ok(S, p, B):
    """loop invariant of the decoding loops: the bytes B held back by the incremental decoder are
    the values of the len(B) consecutive escapes that start at p, and they are what the decoder
    holds back: a proper prefix of a well-formed sequence, or ED A0..BF (nothing has been written
    for them yet)"""
    n = len(B)
    if n == 0:
        return True
    ok = p >= 0 and esc_at(S, p) == B[0] and utf8_need(B[0]) >= n
    for i in range(1, n):
        ok = ok and esc_at(S, p + 3 * i) == B[i] and cont_held(B[0], i, B[i])
    return ok


def call_requires(self, val):
    return True


def dec_status(bs):
    """library contract of the incremental decoder for one more byte (the last of bs) after it
    held back bs[:-1]: 'complete' (a well-formed sequence), 'prefix' (held back) or 'error'"""
    need = utf8_need(bs[0])
    n = len(bs)
    strict = True
    held = True
    for i in range(1, n):
        strict = strict and cont_ok(bs[0], i, bs[i])
        held = held and cont_held(bs[0], i, bs[i])
    if need == n - 1 and strict:
        return "complete"
    if need > n - 1 and held:
        return "prefix"
    return "error"
