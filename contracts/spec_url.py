"""Executable specifications of yarl/_url.py methods.  A URL is seen as the value of its
five stored (already encoded) parts, class U; every specification is a function of those
parts and the arguments only, which is itself part of C08 (results are functions of the
arguments)."""
from . import spec_parse
from .spec_path import normalize_path
from . import prims
from yarl._url import UNDEFINED, USES_RELATIVE
from yarl._parse import USES_AUTHORITY
from .prims import CUT, first_of, hash_parts

DEFAULT_PORTS = {"http": 80, "https": 443, "ws": 80, "wss": 443, "ftp": 21}   # C17


class U:
    __slots__ = ("scheme", "netloc", "path", "query", "fragment")

    def __init__(self, scheme, netloc, path, query, fragment):
        self.scheme = scheme
        self.netloc = netloc
        self.path = path
        self.query = query
        self.fragment = fragment

    def __eq__(self, other):
        return type(other) is U and all(getattr(self, k) == getattr(other, k) for k in U.__slots__)

    def __repr__(self):
        return "U(" + ", ".join(repr(getattr(self, k)) for k in U.__slots__) + ")"


def netloc_ok(u):
    """representation invariant of the authority: it splits without error (C19: an object
    that build() or a modifier returned can always be turned into a string)"""
    spec_parse.split_netloc(u.netloc)
    return True


# ---------------------------------------------------------------- C17: ports

def explicit_port(u):
    return spec_parse.split_netloc(u.netloc)[3]


def port(u):
    """the written port, else the scheme default; 0 is a port, not 'absent'"""
    p = spec_parse.split_netloc(u.netloc)[3]
    if p is not None:
        return p
    if u.scheme == "http" or u.scheme == "ws":
        return 80
    if u.scheme == "https" or u.scheme == "wss":
        return 443
    if u.scheme == "ftp":
        return 21
    return None


def default_port_of(scheme):
    if scheme == "http" or scheme == "ws":
        return 80
    if scheme == "https" or scheme == "wss":
        return 443
    if scheme == "ftp":
        return 21
    return None


def is_default_port(u):
    """True when no port is written under an authority, or the written one is the default"""
    p = spec_parse.split_netloc(u.netloc)[3]
    if p is None:
        return u.netloc != ""
    return p == default_port_of(u.scheme)


# ---------------------------------------------------------------- raw accessors (C07, C09)

def scheme(u):
    return u.scheme


def raw_authority(u):
    return u.netloc


def raw_user(u):
    return spec_parse.split_netloc(u.netloc)[0]


def raw_password(u):
    return spec_parse.split_netloc(u.netloc)[1]


def raw_host(u):
    """None without an authority; an authority without a host has the empty host"""
    h = spec_parse.split_netloc(u.netloc)[2]
    if h is None and u.netloc:
        return ""
    return h


def raw_path(u):
    """an empty path under an authority reads as '/'"""
    if not u.path and u.netloc:
        return "/"
    return u.path


def raw_query_string(u):
    return u.query


def raw_fragment(u):
    return u.fragment


def absolute(u):
    return u.netloc != ""


def bracketed(raw):
    """RFC 3986 3.2.2: an IP-literal (the only host text containing ':') is written in brackets"""
    if ":" in raw:
        return "[" + raw + "]"
    return raw


def host_subcomponent(u):
    raw = raw_host(u)
    if raw is None:
        return None
    return bracketed(raw)


def strip_trailing_dots(raw):
    i = len(raw)
    # the longest suffix of dots is removed
    return raw.rstrip(".")


def host_port_subcomponent(u):
    """host[:port] for the Host header: brackets for IP-literals, trailing dots of the name
    removed, the port written unless it is absent or the scheme default (C17)"""
    raw = raw_host(u)
    if raw is None:
        return None
    raw = strip_trailing_dots(raw)
    p = spec_parse.split_netloc(u.netloc)[3]
    if p is None or p == default_port_of(u.scheme):
        return bracketed(raw)
    return bracketed(raw) + ":" + str(p)


def str_(u):
    """RFC 3986 5.3 recomposition of the stored parts; an explicit port equal to the scheme
    default is not written (6.2.3), and a missing path before a query/fragment under an
    authority is written '/'"""
    path = u.path
    if not path and u.netloc and (u.query or u.fragment):
        path = "/"
    user, password, host, p = spec_parse.split_netloc(u.netloc)
    netloc = u.netloc
    if p is not None and p == default_port_of(u.scheme):
        netloc = spec_parse.make_netloc(user, password, host_subcomponent(u), None)
    return spec_parse.unsplit_result(u.scheme, netloc, path, u.query, u.fragment)


def str_requires(u):
    spec_parse.split_netloc(u.netloc)
    return not u.netloc or not u.path or u.path[0] == "/"


# ---------------------------------------------------------------- modifiers (C11, C17, C19)

def authority(u):
    """the four subcomponents as the modifiers see them: raw user, raw password, the host
    as it is written in an authority (brackets around an IP-literal, '' if absent), port"""
    user, password, host, p = spec_parse.split_netloc(u.netloc)
    h = host_subcomponent(u)
    return user, password, (h if h is not None else ""), p


def with_port(u, port):
    """C17: sets any valid port, clears on None, rejects bools, non-integers, out-of-range;
    C11: every other component is unchanged"""
    if port is not None:
        if isinstance(port, bool) or not isinstance(port, int):
            raise TypeError("port should be int or None")
        if port < 0 or port > 65535:
            raise ValueError("port must be between 0 and 65535")
    if u.netloc == "":
        raise ValueError("port replacement is not allowed for relative URLs")
    user, password, host, _ = authority(u)
    return U(u.scheme, spec_parse.make_netloc(user, password, host, port), u.path, u.query, u.fragment)


def with_scheme(u, scheme):
    if not isinstance(scheme, str):
        raise TypeError("Invalid scheme type")
    low = scheme.lower()
    if u.netloc == "" and (low == "http" or low == "https" or low == "ws" or low == "wss" or low == "ftp"):
        raise ValueError("scheme replacement is not allowed for relative URLs")
    return U(low, u.netloc, u.path, u.query, u.fragment)


def with_user(u, user):
    """with_user(None) also drops the password, as documented"""
    if user is not None and not isinstance(user, str):
        raise TypeError("Invalid user type")
    if u.netloc == "":
        raise ValueError("user replacement is not allowed for relative URLs")
    _, password, host, p = authority(u)
    if user is None:
        return U(u.scheme, spec_parse.make_netloc(None, None, host, p), u.path, u.query, u.fragment)
    return U(u.scheme, spec_parse.make_netloc(spec_parse.QUOTER(user), password, host, p), u.path, u.query, u.fragment)


def with_password(u, password):
    if password is not None and not isinstance(password, str):
        raise TypeError("Invalid password type")
    if u.netloc == "":
        raise ValueError("password replacement is not allowed for relative URLs")
    user, _, host, p = authority(u)
    pw = None if password is None else spec_parse.QUOTER(password)
    return U(u.scheme, spec_parse.make_netloc(user, pw, host, p), u.path, u.query, u.fragment)


def relative(u):
    """only path, query and fragment are kept"""
    if u.netloc == "":
        raise ValueError("URL should be absolute")
    return U("", "", u.path, u.query, u.fragment)


def origin(u):
    """only scheme, host and port are kept"""
    if u.netloc == "":
        raise ValueError("URL should be absolute")
    if u.scheme == "":
        raise ValueError("URL should have scheme")
    _, _, host, p = authority(u)
    if "@" in u.netloc:
        return U(u.scheme, spec_parse.make_netloc(None, None, host, p), "", "", "")
    return U(u.scheme, u.netloc, "", "", "")


def origin_requires(u):
    spec_parse.split_netloc(u.netloc)
    return True


# ---------------------------------------------------------------- C10: equality, hash, order

def cmp_key(u):
    """what == compares: the five parts, an empty path under an authority counting as '/'"""
    path = u.path
    if not path and u.netloc:
        path = "/"
    return (u.scheme, u.netloc, path, u.query, u.fragment)


def eq(u, other):
    if type(other) is not U:
        return NotImplemented
    return cmp_key(u) == cmp_key(other)


def hash_(u):
    k = cmp_key(u)
    return hash_parts(k[0], k[1], k[2], k[3], k[4])


def lt(u, other):
    if type(other) is not U:
        return NotImplemented
    return cmp_key(u) < cmp_key(other)


def le(u, other):
    if type(other) is not U:
        return NotImplemented
    return cmp_key(u) <= cmp_key(other)


def gt(u, other):
    if type(other) is not U:
        return NotImplemented
    return cmp_key(u) > cmp_key(other)


def ge(u, other):
    if type(other) is not U:
        return NotImplemented
    return cmp_key(u) >= cmp_key(other)


def lemma_order_coherent(a, b):
    """C10: exactly one of a < b, a == b, a > b; <= is < or ==; >= is > or ==; equal URLs
    hash alike; equality is symmetric"""
    e, l, g = eq(a, b), lt(a, b), gt(a, b)
    one = (e and not l and not g) or (l and not e and not g) or (g and not e and not l)
    return (one and le(a, b) == (l or e) and ge(a, b) == (g or e)
            and (not e or hash_(a) == hash_(b)) and e == eq(b, a) and l == gt(b, a))


def lemma_eq_transitive(a, b, c):
    return not (eq(a, b) and eq(b, c)) or eq(a, c)


def lemma_eq_reflexive(a):
    return eq(a, a) and not lt(a, a) and le(a, a)


# the lazy definition of every key a function may pre-fill in a URL's memo (C09, C08-O2)
MEMO_SPECS = {
    "scheme": scheme, "raw_user": raw_user, "raw_password": raw_password, "raw_host": raw_host,
    "explicit_port": explicit_port, "raw_path": raw_path, "raw_query_string": raw_query_string,
    "raw_fragment": raw_fragment, "hash": hash_, "_cmp_val": cmp_key, "raw_authority": raw_authority,
    "absolute": absolute, "host_subcomponent": host_subcomponent, "port": port,
}


def with_fragment(u, fragment):
    """C11: only the fragment changes; None clears it"""
    if fragment is not None and not isinstance(fragment, str):
        raise TypeError("Invalid fragment type")
    raw = "" if fragment is None else spec_parse.FRAGMENT_QUOTER(fragment)
    return U(u.scheme, u.netloc, u.path, u.query, raw)


# ---------------------------------------------------------------- constructors (C09, C19, C03)

SCHEME_REQUIRES_HOST = ("http", "https", "ws", "wss", "ftp")


def idna_encode(host):
    """IDNA 2008 with UTS 46 mapping, else the IDNA 2003 codec lower-cased (C16)"""
    if prims.idna2008_ok(host):
        return prims.idna2008(host)
    if not prims.idna2003_ok(host):
        raise UnicodeError("label empty or too long")
    return prims.idna2003(host).lower()


def idna_encode_ensures(host, result):
    """C16: whatever route is taken, the encoded name is lower-case ASCII (and not empty)"""
    return (prims.is_lower_ascii(result), result != "" or host == "")


def encode_host(host, validate_host):
    """host canonicalisation (C16).  An IP literal (with an optional zone id, kept verbatim)
    is compressed; IPv6 -- and anything else with a colon -- gets brackets; every other host
    is lower-cased (ASCII) or IDNA-encoded; with validation on, only reg-name characters pass
    (in the zone id too)."""
    if host and (prims.is_udigit(host[-1:]) or ":" in host):
        z = first_of(host, "%")
        raw_ip = host[:z]
        zone = host[z + 1:]
        if prims.ip_ok(raw_ip):
            if validate_host and prims.regname_bad_at(zone.lower()) >= 0:
                raise ValueError("zone id")
            c = prims.ip_compressed(raw_ip)
            body = c + "%" + zone if z < len(host) else c
            return "[" + body + "]" if (prims.ip_version(raw_ip) == 6 or ":" in zone) else body
    h = host.lower() if host.isascii() else idna_encode(host)
    if validate_host and prims.regname_bad_at(h) >= 0:
        raise ValueError("not a reg-name")
    return "[" + h + "]" if ":" in h else h


def _host_body_ok(host, validate_host, body, br):
    z = first_of(host, "%")
    is_ip = host != "" and (prims.is_udigit(host[-1:]) or ":" in host) and prims.ip_ok(host[:z])
    return ((":" in body) == br,
            is_ip or prims.is_lower_ascii(body),
            is_ip or not validate_host or (prims.regname_bad_at(body) < 0 and not br),
            not is_ip or body == prims.ip_compressed(host[:z]) + host[z:],
            not is_ip or not validate_host or prims.regname_bad_at(host[z + 1:].lower()) < 0)


def encode_host_ensures(host, validate_host, result):
    """C16 / C03 / C09, what callers rely on.  `br`: the result is an IP-literal as the parser
    sees one (enclosing brackets around text with a colon).  A colon occurs only inside such
    brackets; outside an IP literal's zone id the text is lower-case ASCII; a validated host has
    only reg-name characters (so no authority delimiter at all) outside the IP digits, in the
    zone id too; an IP literal is its compressed form followed by the zone verbatim; the result
    is empty only for an empty host"""
    br = result[:1] == "[" and result[-1:] == "]" and len(result) >= 2 and ":" in result[1:-1]
    return ((result != "" or host == ""),
            (_host_body_ok(host, validate_host, result[1:-1], True) if br
             else _host_body_ok(host, validate_host, result, False)))


def encode_url(url_str):
    """the constructor in auto-encoding mode: parse (C07), canonicalise each component with its
    requoter (C01-C04), canonical host (C16), dot segments removed under an authority (C15)"""
    scheme, netloc, path, query, fragment = spec_parse.split_url(url_str)
    if netloc:
        if ":" in netloc or "@" in netloc or "[" in netloc:
            user, password, host, p = spec_parse.split_netloc(netloc)
        else:
            user = None
            password = None
            host = netloc
            p = None
        if host is None:
            if scheme in SCHEME_REQUIRES_HOST:
                raise ValueError("Invalid URL: host is required for absolute urls with this scheme")
            host = ""
        host = encode_host(host, False)
        raw_user = spec_parse.REQUOTER(user) if user else user
        raw_password = spec_parse.REQUOTER(password) if password else password
        netloc = spec_parse.make_netloc(raw_user, raw_password, host, p)
    if path:
        path = spec_parse.PATH_REQUOTER(path)
        if netloc and "." in path:
            path = normalize_path(path)
    if query:
        query = spec_parse.QUERY_REQUOTER(query)
    if fragment:
        fragment = spec_parse.FRAGMENT_REQUOTER(fragment)
    return U(scheme, netloc, path, query, fragment)


def pre_encoded_url(url_str):
    """encoded=True: the parts are stored verbatim (C07)"""
    scheme, netloc, path, query, fragment = spec_parse.split_url(url_str)
    return U(scheme, netloc, path, query, fragment)


def cache_netloc(u):
    """fills four memo entries; returns nothing (the entries are checked against MEMO_SPECS)"""
    spec_parse.split_netloc(u.netloc)
    return None


# ---------------------------------------------------------------- URL.build (C19, C17, C16, C01)

def build_pre_encoded(scheme, authority, user, password, host, port, path, query_string, fragment):
    """encoded=True: the parts are taken as they are; a default port is not stored"""
    if authority:
        netloc = authority
    elif host:
        if port is not None and port == default_port_of(scheme):
            port = None
        netloc = spec_parse.make_netloc(user, password, host, port)
    else:
        netloc = ""
    return U(scheme, netloc, path, query_string, fragment)


def build(cls, scheme, authority, user, password, host, port, path, query, query_string, fragment, encoded):
    """C19/C17: arguments are validated first (a URL that build() returns can always be
    printed); C16: the host is validated and canonicalised, a non-ASCII authority is screened;
    C01: every component is quoted; C15: dot segments removed under an authority"""
    if authority and (user or password or host or port):
        raise ValueError("Can't mix authority with user, password, host or port")
    if port is not None:
        if isinstance(port, bool) or not isinstance(port, int):
            raise TypeError("The port is required to be int")
        if port < 0 or port > 65535:
            raise ValueError("port must be between 0 and 65535")
    if port and not host:
        raise ValueError("Can't build URL with port but without host")
    if query and query_string:
        raise ValueError("Only one of query or query_string should be passed")
    if encoded:
        return build_pre_encoded(scheme, authority, user, password, host, port, path, query_string, fragment)
    netloc = ""
    have_host = False
    if authority:
        if not authority.isascii():
            spec_parse.check_netloc_nfkc(authority)
        user, password, h, port = spec_parse.split_netloc(authority)
        h = encode_host(h, False) if h else ""
        have_host = True
    elif host:
        h = encode_host(host, True)
        have_host = True
    if have_host:
        if port is not None and port == default_port_of(scheme):
            port = None
        u = None
        if user is not None:
            u = spec_parse.QUOTER(user) if user else user
        pw = None if password is None else spec_parse.QUOTER(password)
        netloc = spec_parse.make_netloc(u, pw, h, port)
    if path:
        path = spec_parse.PATH_QUOTER(path)
        if netloc:
            if "." in path:
                path = normalize_path(path)
            if path[:1] != "/":
                raise ValueError("Path in a URL with authority should start with a slash ('/') if set")
    if query_string:
        query_string = spec_parse.QUERY_QUOTER(query_string)
    if fragment:
        fragment = spec_parse.FRAGMENT_QUOTER(fragment)
    return U(scheme, netloc, path, query_string, fragment)


def with_host(u, host):
    """C11/C16: the host is validated and canonicalised; user, password and port are kept"""
    if not isinstance(host, str):
        raise TypeError("Invalid host type")
    if u.netloc == "":
        raise ValueError("host replacement is not allowed for relative URLs")
    if host == "":
        raise ValueError("host removing is not allowed")
    user, password, _, p = spec_parse.split_netloc(u.netloc)
    return U(u.scheme, spec_parse.make_netloc(user, password, encode_host(host, True), p), u.path, u.query, u.fragment)


def with_path(u, path, encoded, keep_query, keep_fragment):
    """C11: scheme and authority kept, query and fragment cleared unless asked to keep them;
    C15: dot segments removed under an authority; the path is rooted"""
    if not encoded:
        path = spec_parse.PATH_QUOTER(path)
        if u.netloc and "." in path:
            path = normalize_path(path)
    if path and path[0] != "/":
        path = "/" + path
    return U(u.scheme, u.netloc, path, u.query if keep_query else "", u.fragment if keep_fragment else "")


def origin_(u):
    return origin(u)


def is_absolute(u):
    return u.netloc != ""


def bool_(u):
    return u.netloc != "" or u.path != "" or u.query != "" or u.fragment != ""


# ---------------------------------------------------------------- pickling (C09)

def getstate(u):
    """the pickled state is exactly the five stored parts (nothing derived, nothing normalised)"""
    return ((u.scheme, u.netloc, u.path, u.query, u.fragment),)


# ---------------------------------------------------------------- path algebra at the string level (C13, C14)

def _last_slash(p):
    return prims.last_index(p, "/")


def raw_name(u):
    """C13: the name is the text after the last '/' of the path (empty for an empty path)"""
    p = u.path
    if u.netloc != "" or p[:1] == "/":
        p = p[1:]
    return p[_last_slash(p) + 1:]


def raw_suffix(u):
    """pathlib's rule: from the last '.', unless it is the first or the last character of the name"""
    name = raw_name(u)
    i = prims.last_index(name, ".")
    if 0 < i and i < len(name) - 1:
        return name[i:]
    return ""


def parent(u):
    """C13: the path without its last segment (a top-level name's parent is the root); query and
    fragment dropped; the URL itself when there is nothing to drop"""
    p = u.path
    if p == "" or p == "/":
        if u.fragment != "" or u.query != "":
            return U(u.scheme, u.netloc, p, "", "")
        return u
    i = _last_slash(p)
    pp = p[:i] if i > 0 else ""
    if pp == "" and p[:1] == "/":
        pp = "/"
    return U(u.scheme, u.netloc, pp, "", "")


def no_slash(u, name, keep_query, keep_fragment):
    return not ("/" in name)


def with_raw_name(u, name, keep_query, keep_fragment):
    """C13: everything up to and including the last '/' is kept, the rest is replaced; under an
    authority an empty path becomes '/' + name"""
    if name == "." or name == "..":
        raise ValueError(". and .. values are forbidden")
    p = u.path
    if u.netloc != "" and p == "":
        np = "/" + name
    elif u.netloc != "" or p[:1] == "/":
        t = p[1:]
        np = "/" + t[:_last_slash(t) + 1] + name
    else:
        np = p[:_last_slash(p) + 1] + name
    return U(u.scheme, u.netloc, np, u.query if keep_query else "", u.fragment if keep_fragment else "")


def with_name(u, name, keep_query, keep_fragment):
    if not isinstance(name, str):
        raise TypeError("Invalid name type")
    if "/" in name:
        raise ValueError("Slash in name is not allowed")
    return with_raw_name(u, spec_parse.PATH_QUOTER(name), keep_query, keep_fragment)


def with_suffix(u, suffix, keep_query, keep_fragment):
    """C13: only the suffix is replaced; the rest of the raw name is kept as it is (never re-encoded)"""
    if not isinstance(suffix, str):
        raise TypeError("Invalid suffix type")
    if (suffix != "" and suffix[:1] != ".") or suffix == ".":
        raise ValueError("Invalid suffix")
    name = raw_name(u)
    if name == "":
        raise ValueError("empty name")
    if "/" in suffix:
        raise ValueError("Slash in name is not allowed")
    q = spec_parse.PATH_QUOTER(suffix)
    old = raw_suffix(u)
    return with_raw_name(u, name[:len(name) - len(old)] + q, keep_query, keep_fragment)


# ---------------------------------------------------------------- reference resolution (C14)

def _norm(path):
    """RFC 3986 5.2.4 where it can change anything (a path without '.' has no dot segment)"""
    if "." in path:
        return normalize_path(path)
    return path


def join_requires(u, other):
    """bases of the known finding KF-C14-rootless-base are excluded: the base has an authority or
    a rooted path (with an authority the path is empty or rooted)"""
    return (netloc_ok(u) and (u.netloc != "" or u.path[:1] == "/")
            and (u.netloc == "" or u.path == "" or u.path[:1] == "/"))


def join(u, other):
    """RFC 3986 5.2.2, non-strict (a reference with the base's scheme is treated as relative), on the
    encoded components; '' stands for an undefined component"""
    if not isinstance(other, U):
        raise TypeError("url should be URL")
    scheme = other.scheme if other.scheme != "" else u.scheme
    if scheme != u.scheme or not (scheme in USES_RELATIVE):
        return other
    if other.netloc != "" and scheme in USES_AUTHORITY:
        return U(scheme, other.netloc, _norm(other.path), other.query, other.fragment)
    bp = u.path
    rp = other.path
    if rp == "":
        return U(scheme, u.netloc, bp, other.query if other.query != "" else u.query, other.fragment)
    if rp[:1] == "/":
        merged = rp
    elif bp == "":
        merged = "/" + rp
    else:
        merged = bp[:prims.last_index(bp, "/") + 1] + rp
    return U(scheme, u.netloc, _norm(merged), other.query, other.fragment)


# ---------------------------------------------------------------- '/' and joinpath (C13)

def make_child_requires(u, paths, encoded=False):
    """the branch that normalises (an authority and a '.' in an appended text) runs
    normalize_path_segments over the whole list including the root marker -- it is covered by the
    bounded stand-in only (and holds the known finding KF-C13-child-root-pop); under an authority
    the stored path is empty or rooted"""
    if not netloc_ok(u):
        return False
    if u.netloc == "":
        return True
    if not (u.path == "" or u.path[:1] == "/"):
        return False
    ok = True
    for i in range(len(paths)):
        q = paths[i] if encoded else spec_parse.PATH_QUOTER(paths[i])
        ok = ok and not ("." in q)
    return ok


def make_child(u, paths, encoded=False):
    """C13: the segments of the path (without a trailing empty one), then the segments of every
    appended text in order (an empty trailing segment is kept only for the last text; existing
    empty segments inside are kept, none is created); texts are quoted once; a leading '/' in a text
    is an error; under an authority the result is rooted; query and fragment are dropped"""
    n = len(paths)
    for i in range(n):
        if paths[i][:1] == "/":
            raise ValueError("Appending path starting from slash is forbidden")
    have = False
    text = ""
    if u.path != "":
        text = u.path[:-1] if u.path[-1:] == "/" else u.path
        have = True
    for i in range(n):
        q = paths[i] if encoded else spec_parse.PATH_QUOTER(paths[i])
        if i < n - 1 and q == "":
            pass
        else:
            if i < n - 1 and q[-1:] == "/":
                q = q[:-1]
            text = (text + "/" + q) if have else q
            have = True
    if u.netloc != "" and have and not (text == "" or text[:1] == "/"):
        text = "/" + text
    return U(u.scheme, u.netloc, text, "", "")


# ---------------------------------------------------------------- decoded accessors (C06): which decoder on which raw component

from yarl._quoters import PATH_SAFE_UNQUOTER, PATH_UNQUOTER, QS_UNQUOTER, UNQUOTER  # noqa: E402


def user(u):
    r = raw_user(u)
    return None if r is None else UNQUOTER(r)


def password(u):
    r = raw_password(u)
    return None if r is None else UNQUOTER(r)


def path(u):
    """'+' is not a space in a path; '/' for an empty path under an authority"""
    if u.path != "":
        return PATH_UNQUOTER(u.path)
    return "/" if u.netloc != "" else ""


def path_safe(u):
    """like path, with %2F and %25 kept"""
    if u.path != "":
        return PATH_SAFE_UNQUOTER(u.path)
    return "/" if u.netloc != "" else ""


def query_string(u):
    """'+' means space; the pair delimiters stay escaped"""
    return QS_UNQUOTER(u.query) if u.query != "" else ""


def fragment(u):
    return UNQUOTER(u.fragment) if u.fragment != "" else ""


def name(u):
    return UNQUOTER(raw_name(u))


def suffix(u):
    return UNQUOTER(raw_suffix(u))


# ---------------------------------------------------------------- small constructors and accessors

def from_parts_spec(scheme, netloc, path, query, fragment):
    return U(scheme, netloc, path, query, fragment)


def bpe_requires(scheme, authority, user, password, host, port, path, query_string, fragment):
    return port is None or (0 <= port and port <= 65535)


def raw_path_qs(u):
    """the path (rooted under an authority) and, if there is one, '?' and the query"""
    p = u.path if (u.path != "" or u.netloc == "") else "/"
    return p + "?" + u.query if u.query != "" else p


def path_qs(u):
    q = query_string(u)
    return path(u) if q == "" else path(u) + "?" + q


def idna_decode(raw):
    """IDNA decoding of an encoded host -- an external function (idna / the idna codec)"""
    from yarl._url import _idna_decode
    return _idna_decode(raw)


def host(u):
    """C16: IP literals are shown as stored, everything else IDNA-decoded"""
    raw = raw_host(u)
    if raw is None:
        return None
    if (raw != "" and prims.is_udigit(raw[-1:])) or ":" in raw:
        return raw
    return idna_decode(raw)


def lemma_joinpath_requires(u, a, b, encoded):
    return make_child_requires(u, (a, b), encoded)


def lemma_joinpath_two_steps(u, a, b, encoded):
    """C13: joinpath(a, b) == joinpath(a).joinpath(b) (outside the normalising branch), at the level of
    the specification that _make_child is proved to refine"""
    if a[:1] == "/" or b[:1] == "/":
        return True
    one = make_child(u, (a, b), encoded)
    mid = make_child(u, (a,), encoded)
    two = make_child(mid, (b,), encoded)
    return (one.scheme == two.scheme and one.netloc == two.netloc and one.path == two.path
            and one.query == two.query and one.fragment == two.fragment)


def truediv(u, name):
    """C13: u / s is u.joinpath(s); anything but a str is left to the other operand"""
    if not isinstance(name, str):
        return NotImplemented
    return make_child(u, (name,), False)


def truediv_requires(u, name):
    return (not isinstance(name, str)) or make_child_requires(u, (name,), False)


def joinpath(u, other, encoded):
    return make_child(u, other, encoded)


def joinpath_requires(u, other, encoded):
    return make_child_requires(u, other, encoded)


def decoded_authority(u):
    """the decoded authority: the decoded user, password and host and the effective port, assembled as RFC 3986 3.2 says"""
    return spec_parse.make_netloc(user(u), password(u), host(u), port(u))


def new(cls, val, encoded, strict):
    """C19: URL(val, encoded=...): a str is parsed (auto-encoding or taken verbatim), a URL is returned
    as it is, the pickling sentinel gives the empty URL, anything else is a TypeError.  (SplitResult
    and str-subclass arguments are not part of this contract.)"""
    if isinstance(val, str):
        return pre_encoded_url(val) if encoded else encode_url(val)
    if isinstance(val, U):
        return val
    if val is UNDEFINED:
        return U("", "", "", "", "")
    raise TypeError("Constructor parameter should be str")
