"""Finite obligations of host handling (C16).

1. The reg-name screen.  yarl._url.NOT_REG_NAME is read from the current tree; its parse tree
   (re._parser) must have the shape  [^CLASS] | %(?![HEX]{2})  -- a one-character negated class,
   or a '%' not followed by two characters of a class -- which makes `search` a *local* test
   (window of three characters).  CLASS and HEX are then compared with RFC 3986 reg-name in
   lower case (unreserved / sub-delims / pct-encoded), and the real compiled pattern is run on
   every string of length <= 3 over all 128 ASCII characters plus non-ASCII representatives
   against contracts.prims.regname_bad_at -- the definition the symbolic proof uses.
2. The NFKC screen.  For every Unicode code point cp >= 128 whose NFKC form contains one of
   '/', '?', '#', '@', ':' (the property's list; since the fix of the fullwidth-bracket defect the
   code screens '[' and ']' as well, which is examined too) (all 1 114 112 code points are examined) the real split_url rejects
   an authority containing it (in host, user and port position); and no delimiter composes
   with a following code point under NFKC (so a delimiter produced by one character survives
   normalisation of the whole authority).  The statement for whole strings with arbitrary
   context is bounded by this per-character enumeration (labelled bounded).
"""
from __future__ import annotations

import itertools
import multiprocessing as mp
import time
import unicodedata

from .finite import register
from . import prims


def _parse(pattern):
    try:
        from re import _parser as sre_parse
    except ImportError:  # < 3.11
        import sre_parse
    return sre_parse.parse(pattern.pattern, pattern.flags)


def _class_codes(items):
    codes = set()
    neg = False
    for op, av in items:
        name = str(op)
        if name == "NEGATE":
            neg = True
        elif name == "LITERAL":
            codes.add(av)
        elif name == "RANGE":
            codes.update(range(av[0], av[1] + 1))
        else:
            raise ValueError(f"class item {name}")
    return neg, codes


def screen_shape(pattern):
    """(allowed one-character class incl. '%', hex class, count) or raises ValueError"""
    tree = _parse(pattern)
    if len(tree) != 1 or str(tree[0][0]) != "BRANCH":
        raise ValueError("not a two-way alternation")
    alts = tree[0][1][1]
    if len(alts) != 2:
        raise ValueError("not a two-way alternation")
    a, b = alts
    if len(a) != 1 or str(a[0][0]) != "IN":
        raise ValueError("first alternative is not one character class")
    neg, allowed = _class_codes(a[0][1])
    if not neg:
        raise ValueError("first alternative is not a negated class")
    if len(b) != 2 or str(b[0][0]) != "LITERAL" or b[0][1] != 37 or str(b[1][0]) != "ASSERT_NOT":
        raise ValueError("second alternative is not '%' + negative look-ahead")
    direction, sub = b[1][1]
    if direction != 1 or len(sub) != 1 or str(sub[0][0]) != "MAX_REPEAT":
        raise ValueError("look-ahead is not a counted class")
    lo, hi, item = sub[0][1]
    if lo != hi or len(item) != 1 or str(item[0][0]) != "IN":
        raise ValueError("look-ahead is not a counted class")
    hneg, hexs = _class_codes(item[0][1])
    if hneg:
        raise ValueError("negated look-ahead class")
    return allowed, hexs, lo


_SHAPE_CACHE = {}


def is_regname_screen(pattern):
    k = (pattern.pattern, pattern.flags)
    if k not in _SHAPE_CACHE:
        try:
            screen_shape(pattern)
            _SHAPE_CACHE[k] = True
        except (ValueError, IndexError, TypeError):
            _SHAPE_CACHE[k] = False
    return _SHAPE_CACHE[k]


ALPHA = [chr(i) for i in range(128)] + ["\x80", "\xe9", "а", "／", "\U0001f600"]


def _window_chunk(first):
    import yarl._url as yu
    pat = yu.NOT_REG_NAME
    bad = None
    n = 0
    for rest_len in range(0, 3):
        for rest in itertools.product(ALPHA, repeat=rest_len):
            s = first + "".join(rest)
            n += 1
            m = pat.search(s)
            got = -1 if m is None else m.start()
            if got != prims.regname_bad_at(s):
                return n, (s, got, prims.regname_bad_at(s))
    return n, bad


def _nfkc_chunk(rng):
    from yarl._parse import split_url
    lo, hi = rng
    bad = None
    hits = 0
    for cp in range(max(lo, 128), hi):
        if 0xD800 <= cp <= 0xDFFF:
            continue
        ch = chr(cp)
        n = unicodedata.normalize("NFKC", ch)
        comp = [d for d in "/?#@:" if unicodedata.normalize("NFKC", d + ch)[:1] != d]
        if comp:
            return hits, ("composes", cp, comp)
        if not any(d in n for d in "/?#@:[]"):
            continue
        hits += 1
        for url in (f"//a{ch}b/p", f"//u{ch}:p@h/", f"//h:8{ch}/", f"http://{ch}", f"//[::1]{ch}/"):
            try:
                split_url(url)
            except ValueError:
                continue
            return hits, ("accepted", cp, url)
    return hits, bad


@register("C16")
def run(tier, seed):
    out = []
    t = time.time()
    import yarl._url as yu
    pat = yu.NOT_REG_NAME
    where = "yarl/_url.py:NOT_REG_NAME"
    try:
        allowed, hexs, count = screen_shape(pat)
        shape_ok = True
        detail = ""
    except (ValueError, IndexError, TypeError) as e:
        shape_ok = False
        detail = f"pattern outside the modelled shape: {e}"
    if not shape_ok:
        out.append({"name": "NOT_REG_NAME has the shape [^CLASS]|%(?![HEX]{2})", "kind": "finite", "status": "unknown",
                    "backend": "finite", "where": where, "time_s": 0, "ground": 0, "info": {"detail": detail},
                    "function": "yarl._url:NOT_REG_NAME"})
        return out
    want_allowed = {ord(c) for c in prims.REGNAME_LOWER} | {37}
    want_hex = {ord(c) for c in prims.HEX_LOWER}
    ok = allowed == want_allowed and hexs == want_hex and count == 2
    diff = sorted(chr(c) for c in allowed ^ want_allowed)
    first_bad = (diff[0] if diff else None)
    rep = None
    if not ok:
        w = (first_bad if first_bad is not None else "%0G")
        rep = {"inputs": {"host": "a" + w + "b"}, "agrees": False,
               "observed": f"class difference {diff}, look-ahead {sorted(chr(c) for c in hexs ^ want_hex)} x{count}"}
    out.append({"name": "NOT_REG_NAME's classes == RFC 3986 reg-name in lower case (unreserved / sub-delims / %HH)",
                "kind": "finite", "status": "unsat" if ok else "sat", "backend": "finite", "where": where,
                "time_s": round(time.time() - t, 3), "ground": 128, "exhaustive": True,
                "info": {"difference": diff}, "function": "yarl._url:NOT_REG_NAME", "replay": rep})
    t = time.time()
    with mp.get_context("fork").Pool(16) as pool:
        res = pool.map(_window_chunk, ALPHA)
    n = sum(r[0] for r in res)
    bad = [r[1] for r in res if r[1] is not None]
    out.append({"name": "NOT_REG_NAME.search == first index outside the reg-name grammar, all strings of length <= 3 over "
                        "ASCII + 5 non-ASCII representatives (the pattern is local: window 3)",
                "kind": "finite", "status": "unsat" if not bad else "sat", "backend": "finite", "where": where,
                "time_s": round(time.time() - t, 3), "ground": n, "exhaustive": True, "info": {"counterexample": bad[:1]},
                "function": "yarl._url:NOT_REG_NAME",
                "replay": {"inputs": {"host": bad[0][0]}, "agrees": False, "observed": f"search -> {bad[0][1]}, grammar -> {bad[0][2]}"} if bad else None})
    t = time.time()
    N = 0x110000
    step = N // 64
    with mp.get_context("fork").Pool(16) as pool:
        res = pool.map(_nfkc_chunk, [(lo, min(N, lo + step)) for lo in range(0, N, step)])
    hits = sum(r[0] for r in res)
    bad = [r[1] for r in res if r[1] is not None]
    out.append({"name": "every code point whose NFKC form contains / ? # @ : is rejected in an authority (host, userinfo, "
                        "port position; after an IP-literal), and no delimiter composes with a following code point",
                "kind": "finite", "status": "unsat" if not bad else "sat", "backend": "finite",
                "where": "yarl/_parse.py:_check_netloc", "time_s": round(time.time() - t, 3), "ground": N,
                "exhaustive": True, "bounded": True,
                "bound": f"all 1 114 112 code points examined one at a time ({hits} have a delimiter in their NFKC form) "
                         "in 5 authority positions; multi-character contexts are covered by the contract of _check_netloc, "
                         "not by this enumeration",
                "info": {"delimiter_code_points": hits, "counterexample": bad[:1]},
                "function": "yarl._parse:_check_netloc",
                "replay": {"inputs": {"code_point": bad[0][1], "detail": repr(bad[0])}, "agrees": False} if bad else None})
    if hits == 0:
        out[-1]["status"] = "unknown"
    return out
