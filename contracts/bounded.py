"""Bounded stand-ins (labelled bounded, never counted as proved).

For functions that the contract engine does not reach yet, the property's own statement (or an
independent reference implementation of the cited RFC section) is evaluated on the *real*
functions over an exhaustively enumerated, stated domain.  Each stand-in is an obligation record
with `bounded: true` and its bound; a failing case is reported with the input that fails (which
is its own replay).  Failures that fall in a class listed in /verif/known_findings.json are
reported as KNOWN-FINDING by the driver and not as violations; anything else is a violation.

The cases run in worker processes (contracts/bounded_worker.py) so that both quoting back ends
are exercised: YARL_NO_EXTENSIONS=1 selects the pure-Python quoter, the default the compiled one.
"""
from __future__ import annotations

import json
import os
import subprocess
import sys
import time

from .finite import register

ROOT = os.path.dirname(os.path.dirname(os.path.abspath(__file__)))
NPROC = 8          # per back end


def _run_workers(name, tier):
    procs = []
    from . import extcache
    pkg = extcache.package_dir()      # current sources + extension built from the current .pyx
    for backend in ("c", "py"):
        env = dict(os.environ)
        env["PYTHONPATH"] = ROOT + os.pathsep + os.environ.get("PYVC_REPO", "/repo")
        if backend == "py":
            env["YARL_NO_EXTENSIONS"] = "1"
        else:
            env.pop("YARL_NO_EXTENSIONS", None)
            if pkg is None:
                procs.append((backend, 0, None))
                continue
            env["PYTHONPATH"] = ROOT + os.pathsep + pkg
        for k in range(NPROC):
            p = subprocess.Popen([sys.executable, "-m", "contracts.bounded_worker", name, tier, str(k), str(NPROC)],
                                 cwd=ROOT, env=env, stdout=subprocess.PIPE, stderr=subprocess.PIPE, text=True)
            procs.append((backend, k, p))
    res = []
    for backend, k, p in procs:
        if p is None:
            res.append({"backend": backend, "error": "the compiled quoter could not be built from the current .pyx"})
            continue
        out, err = p.communicate()
        if p.returncode != 0:
            res.append({"backend": backend, "error": (err or out)[-2000:]})
            continue
        d = json.loads(out)
        want = "_quoting_c" if backend == "c" else "_quoting_py"
        if not str(d.get("impl")).endswith(want):
            res.append({"backend": backend, "error": f"worker ran {d.get('impl')} instead of {want}"})
            continue
        d["backend"] = backend
        res.append(d)
    return res


def _known_classes(prop):
    try:
        k = json.load(open(os.path.join(ROOT, "known_findings.json")))
    except (OSError, ValueError):
        return []
    # class names are unique across properties; a stand-in shared by several properties must not
    # re-report under one of them what is listed (and printed as KNOWN-FINDING) under another
    return [f for f in k.get("findings", []) if f.get("bounded_class")]


NONTRIVIAL_RULES = {
    "join": "every (base, reference) pair of the stated grammar is enumerated once per back end; a pair is non-trivial when "
            "the result is neither the base nor the reference (a merge happened); counted on one back end",
    "path_algebra": "every base URL of the stated grammar once per back end (each is combined with every listed text); "
                    "non-trivial when the base has at least two raw parts",
    "decode": "every string of the stated alphabets/lengths and every listed escape run once per back end; non-trivial "
              "when reference decoding changes the string (it contains a decodable escape)",
    "human_repr": "every (component, text, host) combination once per back end; non-trivial when human_repr() differs from str()",
    "fixed_point": "every URL string of the stated grammar once per back end (plus modifier results for every 7th); "
                   "non-trivial when str(URL(s)) != s (normalisation changed the text)",
}


def stand_in(props, name, title, function, bound_text, primary=True):
    """one bounded obligation (run by contracts/bounded_worker.py:CHECKS[name]); `props`: the property
    it stands in for first, then properties that merely also run it"""
    if isinstance(props, str):
        props = (props,)
    prop = props[0]
    def run(tier, seed):
        t = time.time()
        res = _run_workers(name, tier)
        errs = [r for r in res if "error" in r]
        cases = sum(r.get("cases", 0) for r in res)
        nontrivial = sum(r.get("nontrivial", 0) for r in res if r.get("backend") == "c")
        samples = [x for r in res for x in r.get("samples", [])][:4]
        fails = [dict(f, backend=r["backend"]) for r in res for f in r.get("failures", [])]
        known = {f["bounded_class"] for f in _known_classes(prop)}
        new = [f for f in fails if f.get("class") not in known]
        by_known = {}
        for f in fails:
            if f.get("class") in known:
                by_known[f["class"]] = by_known.get(f["class"], 0) + 1
        rec = {"name": f"bounded:{title}", "kind": "bounded", "backend": "enumeration", "bounded": True,
               "bound": bound_text + f" ({cases} cases over both quoting back ends, tier {tier})",
               "where": function, "function": function, "time_s": round(time.time() - t, 2), "ground": cases,
               "info": {"known_finding_hits": by_known, "failures": new[:5]},
               "evaluations": cases, "distinct_nontrivial": nontrivial, "samples": samples,
               "primary_for": prop if primary else None,
               "rule": NONTRIVIAL_RULES.get(name, "")}
        if errs:
            rec["status"] = "unknown"
            rec["info"]["worker_error"] = errs[0]["error"]
        elif cases == 0:
            rec["status"] = "unknown"
            rec["info"]["worker_error"] = "no case enumerated"
        elif new:
            rec["status"] = "sat"
            f = new[0]
            rec["replay"] = {"inputs": f.get("input"), "observed": f.get("observed"), "expected": f.get("expected"),
                             "what": f.get("what"), "backend": f.get("backend"), "agrees": False, "bounded_check": name}
        else:
            rec["status"] = "unsat"
        return [rec]
    run.__name__ = f"bounded_{name}"
    _CACHE = {}

    def cached(tier, seed):
        # several properties share one stand-in: known-finding classes are per primary property
        return run(tier, seed)
    cached.__name__ = run.__name__
    register(*props)(cached)
    return run


stand_in(("C14", "C02"), "join", "base.join(ref) == RFC 3986 5.2.2 (non-strict) on the encoded components",
         "yarl._url:URL.join",
         "bases and references built from scheme in {http, '', other}, authority in {none, h}, paths of <= 3 segments "
         "over {a, b.c, '.', '..', '', %2e, x%2Fy}, query/fragment in {absent, present}", primary=False)
stand_in(("C13", "C11", "C01"), "path_algebra", "raw_parts / name / suffix / '/' / joinpath / with_name / with_suffix / parent identities",
         "yarl._url:URL._make_child",
         "bases over {absolute, rooted, rootless, empty} x paths of <= 3 (quick) / 4 (thorough) segments over {a, b.c, '', %2F, e-acute} x "
         "segment texts over the same kinds plus digits (ASCII and non-ASCII), dot segments and multi-segment texts")
stand_in(("C06", "C05"), "decode", "decoded accessors == reference UTF-8 percent-decoding; supplied decoded values read back",
         "yarl._quoting_py:_Unquoter.__call__",
         "all strings of length <= 5 (quick) / 6 (thorough) over {%, 4, 1, C, 3, A, 9, +, a, /, e-acute} per component, "
         "plus escape runs of every 1-4 byte UTF-8 shape incl. overlong, truncated and surrogate encodings", primary=False)
stand_in("C18", "human_repr", "URL(u.human_repr()) == u and printable text is shown decoded",
         "yarl._url:URL.human_repr",
         "URLs built from decoded components over texts of <= 2 characters from the reserved delimiters, '%', space, "
         "a control character, non-ASCII BMP and non-BMP characters, per component; hosts in {IDN, IPv4, IPv6}; 6 whole queries with repeated keys")
stand_in(("C03", "C15", "C09"), "fixed_point", "URL(str(u)) has the same string form and the same components as u",
         "yarl._url:encode_url",
         "URL strings composed of scheme x userinfo x host x port x path x query x fragment alternatives (see "
         "contracts/bounded_worker.py:fixed_point_cases) and the results of one modifier applied to each")
stand_in(("C12", "C02", "C01", "C19"), "query_algebra", "with_query / extend_query / update_query / without_query_params == multi-dict algebra on pairs",
         "yarl._url:URL.update_query",
         "6 existing queries (duplicates, blanks, reserved characters; thorough: +40 single-pair queries) x 10 keys x 9 values x "
         "{dict, pairs, MultiDict, dict of list, int, float, float with exponent, str subclass, kwargs, str} + None, rejected values and wrong arities", primary=False)
stand_in(("C19", "C03", "C09", "C17"), "build", "URL.build results are usable objects and fixed points; only ValueError/TypeError",
         "yarl._url:URL.build",
         "scheme in {'', http, x} x 12 authority / host alternatives (incl. host-less ones) x 5 paths", primary=False)
NONTRIVIAL_RULES["query_algebra"] = ("every (existing query, key, value) triple once per back end, each with six argument forms; "
                                     "non-trivial when the existing query is not empty")
NONTRIVIAL_RULES["build"] = "every argument combination once per back end; non-trivial when build() returns a URL"
stand_in(("C07", "C17", "C19"), "conformance_parse", "split_url / split_netloc / make_netloc == their executable specifications",
         "yarl._parse:split_url",
         "all strings of length <= 5 (quick) / 6 (thorough) over 14 characters (delimiters, TAB, LF, letters, digit) for split_url; "
         "<= 6 / 7 over 10 characters for split_netloc; 6 x 6 x 4 x 4 x 2 argument combinations for make_netloc", primary=False)
stand_in(("C15", "C14"), "conformance_path", "normalize_path (real function) == RFC 3986 5.2.4 remove_dot_segments, rooted paths",
         "yarl._path:normalize_path",
         "all rooted paths of <= 6 (quick) / 7 (thorough) segments over {., .., '', a, .a, a., ...}", primary=False)
stand_in(("C16",), "conformance_host", "_encode_host == its executable specification on a host corpus",
         "yarl._url:_encode_host",
         "about 230 hosts (reg-names, IPv4/IPv6 with and without zone ids in both cases, IDN, every printable ASCII character in host "
         "and zone position) x validation on/off", primary=False)
NONTRIVIAL_RULES["conformance_parse"] = "every string of the stated alphabets once per back end; non-trivial when split_url finds an authority"
NONTRIVIAL_RULES["conformance_path"] = "every segment sequence once per back end; non-trivial when normalisation changes the path"
NONTRIVIAL_RULES["conformance_host"] = "every (host, validate) pair once per back end; non-trivial when the encoded host differs from the input"
stand_in(("C11", "C17"), "modifiers", "with_* / origin / relative change only their own component, which reads back",
         "yarl._url:URL.with_host",
         "3 schemes x 4 userinfos x 5 hosts x 5 ports x 4 paths x 4 query/fragment endings (4800 URLs) x 21 modifier calls; valid arguments must be accepted", primary=False)
NONTRIVIAL_RULES["modifiers"] = "every URL of the corpus once per back end, each with 21 modifier calls; non-trivial when it has userinfo or an explicit port"

stand_in(("C10", "C08"), "coherence", "==, hash and the ordering operators are coherent across construction routes; memo entries == lazy values",
         "yarl._url:URL.__eq__",
         "936 URL texts (4 schemes x 7 authorities incl. default ports and upper case x 6 paths incl. ''/'/' x 3 queries x 2 fragments) "
         "x 8 construction routes (parse, encoded=True, pickle, build, build encoded, three identity modifiers), each compared with "
         "every operand of its scheme and every 5th of the rest; 18 modifiers on a cold and on a fully observed source", primary=False)
NONTRIVIAL_RULES["coherence"] = ("every URL text once per back end (all its routes, modifiers and comparisons); non-trivial when "
                                 "the routes yield more than one distinct value")


def replay_bounded(name, inputs, tier="quick"):
    """re-run one stand-in on the current tree and say whether the recorded input still fails"""
    res = _run_workers(name, tier)
    hits = [dict(f, backend=r.get("backend")) for r in res for f in r.get("failures", []) if f.get("input") == inputs]
    errs = [r["error"] for r in res if "error" in r]
    return hits, errs
