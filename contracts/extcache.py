"""The compiled quoter the bounded stand-ins exercise is built from the *current*
/repo/yarl/_quoting_c.pyx, not taken from whatever .so happens to lie in /repo: the build is cached
by the SHA-256 of the .pyx text under /verif/.venv/extcache (git-ignored build output), and every
check run assembles a scratch package directory (symlinks to the current /repo/yarl sources plus
that extension) outside /repo and /verif, removed at exit."""
from __future__ import annotations

import atexit
import hashlib
import os
import shutil
import subprocess
import sysconfig
import tempfile

ROOT = os.path.dirname(os.path.dirname(os.path.abspath(__file__)))
_DIR = {}


def _repo():
    return os.environ.get("PYVC_REPO", "/repo")


def built_extension():
    """path of the extension built from the current .pyx (None if it cannot be built)"""
    pyx = os.path.join(_repo(), "yarl", "_quoting_c.pyx")
    try:
        text = open(pyx, "rb").read()
    except OSError:
        return None
    sha = hashlib.sha256(text).hexdigest()[:24]
    suffix = sysconfig.get_config_var("EXT_SUFFIX")
    cdir = os.path.join(ROOT, ".venv", "extcache", sha)
    so = os.path.join(cdir, "_quoting_c" + suffix)
    if os.path.exists(so):
        return so
    tmp = tempfile.mkdtemp(prefix="yarl_verif_build_")
    try:
        shutil.copy(pyx, os.path.join(tmp, "_quoting_c.pyx"))
        subprocess.run(["/venv/bin/cython", "-3", "_quoting_c.pyx", "-o", "_quoting_c.c"], cwd=tmp, check=True,
                       capture_output=True, timeout=600)
        inc = sysconfig.get_paths()["include"]
        out = os.path.join(tmp, "_quoting_c" + suffix)
        subprocess.run(["gcc", "-shared", "-fPIC", "-O1", "-fno-strict-aliasing", "-I" + inc, "_quoting_c.c", "-o", out],
                       cwd=tmp, check=True, capture_output=True, timeout=900)
        os.makedirs(cdir, exist_ok=True)
        tmpname = f"{so}.{os.getpid()}.tmp"          # several checks may build at the same time
        shutil.copy(out, tmpname)
        os.replace(tmpname, so)
        return so
    except (subprocess.SubprocessError, OSError):
        return None
    finally:
        shutil.rmtree(tmp, ignore_errors=True)


def package_dir():
    """directory to put on PYTHONPATH: yarl/ = the current sources of /repo + the extension built
    from the current .pyx; None if the extension cannot be built (the compiled back end is then
    reported as not exercised)"""
    if "dir" in _DIR:
        return _DIR["dir"]
    so = built_extension()
    if so is None:
        _DIR["dir"] = None
        return None
    d = tempfile.mkdtemp(prefix="yarl_verif_pkg_")
    atexit.register(shutil.rmtree, d, True)
    pkg = os.path.join(d, "yarl")
    os.makedirs(pkg)
    src = os.path.join(_repo(), "yarl")
    for name in os.listdir(src):
        if name.startswith("_quoting_c") and (name.endswith(".so") or name.endswith(".c")):
            continue
        if name == "__pycache__":
            continue
        os.symlink(os.path.join(src, name), os.path.join(pkg, name))
    shutil.copy(so, os.path.join(pkg, os.path.basename(so)))
    _DIR["dir"] = d
    return d
