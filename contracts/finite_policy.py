"""C04 / C01 policy tables: for every component, the characters the serving quoter leaves literal
are exactly RFC 3986's literals of that component (128 x 5, exhaustive).  The effective sets are
computed from the *real* configurations (yarl/_quoters.py) and the real constants of both
implementations (yarl/_quoting_py.py: ALLOWED ...; yarl/_quoting_c.pyx: the bit tables built by
executing the rewritten initialisation code)."""
from __future__ import annotations

from .finite import register
from . import spec_quote

# component -> quoters that serve it (from the call sites in yarl/_url.py, _parse.py, _query.py)
SERVES = {
    "user": ("QUOTER", "REQUOTER"),
    "password": ("QUOTER", "REQUOTER"),
    "path": ("PATH_QUOTER", "PATH_REQUOTER"),
    "query": ("QUERY_QUOTER", "QUERY_REQUOTER"),
    "fragment": ("FRAGMENT_QUOTER", "FRAGMENT_REQUOTER"),
}
# recorded known finding: ':' is a literal of the password (RFC 3986 userinfo) but is escaped
KNOWN_DEVIATIONS = {("password", ":")}


def py_literals(q):
    import yarl._quoting_py as m
    safe = q._safe + m.ALLOWED + ("" if q._qs else "+&=;") + q._protected
    return {c for c in map(chr, range(128)) if c in safe}


def c_literals(q, mod):
    return {chr(c) for c in range(128) if mod.bit_at(q._safe_table, c)}


@register("C04", "C01")
def run(tier, seed):
    from .registry import PY_QUOTERS, C_QUOTERS, _PYX_MOD
    out = []
    for comp, names in SERVES.items():
        want = set(spec_quote.LIT[comp])
        for name in names:
            for impl, lits in (("python", py_literals(PY_QUOTERS[name])),
                               ("compiled", c_literals(C_QUOTERS[name], _PYX_MOD) if name in C_QUOTERS else None)):
                if lits is None:
                    continue
                if name in spec_quote.QS:
                    lits = lits | {"+"} - {" "}      # '+' is written for a space; a literal space is not kept
                diff = {c for c in (lits ^ want) if (comp, c) not in KNOWN_DEVIATIONS}
                known = {c for c in (lits ^ want) if (comp, c) in KNOWN_DEVIATIONS}
                out.append({"name": f"policy:{impl} {name} keeps literal exactly RFC 3986 LIT({comp}) (128 characters)",
                            "kind": "finite", "status": "unsat" if not diff else "sat", "backend": "finite",
                            "where": f"yarl/_quoters.py:{name}", "time_s": 0.0, "ground": 128, "exhaustive": True,
                            "function": f"yarl._quoters:{name}",
                            "info": {"deviating": sorted(diff), "known_finding_characters": sorted(known)},
                            "replay": {"inputs": {"component": comp, "characters": sorted(diff)}, "agrees": False} if diff else None})
    return out
