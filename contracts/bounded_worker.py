"""Worker of the bounded stand-ins: python -m contracts.bounded_worker <check> <tier> <shard> <nshards>

Prints one JSON object {"cases": n, "failures": [{"what", "input", "observed", "expected", "class"}]}.
Every check enumerates its whole stated domain deterministically; shard k takes every
nshards-th case.  Oracles are the property statements themselves or independent reference
implementations (RFC 3986 5.2.2 / 5.2.4, UTF-8 percent-decoding); nothing here imports pyvc.
"""
from __future__ import annotations

import itertools
import json
import os
import pickle
import sys
import unicodedata

MAXFAIL = 40


class Out:
    def __init__(self, k, n):
        self.k, self.n = k, n
        self.i = 0
        self.cases = 0
        self.failures = []
        self.per_class = {}
        self.nontrivial = 0
        self.samples = []

    def note(self, nontrivial, sample=None):
        if nontrivial:
            self.nontrivial += 1
            if sample is not None and len(self.samples) < 3:
                self.samples.append(sample)

    def mine(self):
        self.i += 1
        if (self.i - 1) % self.n != self.k:
            return False
        self.cases += 1
        return True

    def fail(self, what, inp, observed, expected, cls=None):
        self.per_class[cls] = self.per_class.get(cls, 0) + 1
        if self.per_class[cls] <= (3 if cls else MAXFAIL):
            self.failures.append({"what": what, "input": inp, "observed": repr(observed), "expected": repr(expected),
                                  "class": cls})

    @property
    def full(self):
        return self.per_class.get(None, 0) >= MAXFAIL


# =============================================================== C14: join vs RFC 3986 5.2.2

def remove_dot_segments(path):
    """RFC 3986 5.2.4, literally"""
    out = []
    inp = path
    while inp:
        if inp.startswith("../"):
            inp = inp[3:]
        elif inp.startswith("./"):
            inp = inp[2:]
        elif inp.startswith("/./"):
            inp = inp[2:]
        elif inp == "/.":
            inp = "/"
        elif inp.startswith("/../"):
            inp = inp[3:]
            if out:
                out.pop()
        elif inp == "/..":
            inp = "/"
            if out:
                out.pop()
        elif inp in (".", ".."):
            inp = ""
        else:
            i = inp.find("/", 1)
            if i < 0:
                i = len(inp)
            out.append(inp[:i])
            inp = inp[i:]
    return "".join(out)


def rfc_resolve(B, R, uses_relative):
    """RFC 3986 5.2.2, non-strict; components are (scheme, authority, path, query, fragment)
    with '' for an undefined component (the library does not distinguish the two)"""
    bs, ba, bp, bq, bf = B
    rs, ra, rp, rq, rf = R
    if rs and rs != bs:
        return R
    if bs not in uses_relative:
        return R
    if ra:
        return (bs, ra, remove_dot_segments(rp), rq, rf)
    if rp == "":
        return (bs, ba, bp, rq if rq else bq, rf)
    if rp.startswith("/"):
        return (bs, ba, remove_dot_segments(rp), rq, rf)
    if ba and bp == "":
        merged = "/" + rp
    else:
        merged = bp[:bp.rfind("/") + 1] + rp
    return (bs, ba, remove_dot_segments(merged), rq, rf)


def _paths(kinds, maxseg):
    out = []
    for L in range(1, maxseg + 1):
        for segs in itertools.product(kinds, repeat=L):
            out.append("/".join(segs))
    return out


def _assemble(c):
    s, a, p, q, f = c
    t = ""
    if s:
        t += s + ":"
    if a:
        t += "//" + a
    t += p
    if q:
        t += "?" + q
    if f:
        t += "#" + f
    return t


def check_join(tier, out):
    from yarl import URL
    from yarl._url import USES_RELATIVE
    bkinds = ("a", "b.c", "", ".", "..", "x%2Fy")
    rkinds = ("a", ".", "..", "", "b.c", "%2e")
    bp_rel = _paths(bkinds, 2)
    base_paths_auth = [""] + ["/" + p for p in bp_rel]
    base_paths_noauth = ["/" + p for p in bp_rel] + [p for p in bp_rel if p and not p.startswith("/")]
    rp_rel = _paths(rkinds, 2 if tier == "quick" else 3)
    ref_paths = [""] + ["/" + p for p in rp_rel] + [p for p in rp_rel if p and not p.startswith("/") and ":" not in p.split("/")[0]]
    bases = []
    for q in ("", "bq"):
        for f in ("", "bf"):
            for p in base_paths_auth:
                bases.append(("http", "h", p, q, f))
            for p in base_paths_noauth:
                bases.append(("http", "", p, q, f))
    bases += [("x-other", "h", "/a/b", "bq", "bf"), ("x-other", "", "/a/b", "", ""), ("mailto", "", "a@b", "", "")]
    refs = []
    for s in ("", "http", "ftp"):
        for a in ("", "g"):
            for p in ref_paths:
                if a and p and not p.startswith("/"):
                    continue
                if not a and p.startswith("//"):
                    continue
                for q in ("", "rq"):
                    for f in ("", "rf"):
                        refs.append((s, a, p, q, f))
    ref_objs = None
    for B in bases:
        if not out.mine():
            continue
        if ref_objs is None:
            ref_objs = []
            for R in refs:
                try:
                    ru = URL(_assemble(R), encoded=True)
                except ValueError:
                    continue
                if (ru.scheme, ru.raw_authority, ru._val[2], ru.raw_query_string, ru.raw_fragment) != R:
                    continue        # the string does not denote these components (e.g. a first segment with ':')
                ref_objs.append((R, ru))
        try:
            bu = URL(_assemble(B), encoded=True)
        except ValueError:
            continue
        if (bu.scheme, bu.raw_authority, bu._val[2], bu.raw_query_string, bu.raw_fragment) != B:
            continue
        rootless_base = B[1] == "" and not B[2].startswith("/")
        out.cases += len(ref_objs) - 1
        for R, ru in ref_objs:
            want = rfc_resolve(B, R, USES_RELATIVE)
            try:
                t = bu.join(ru)
                got = (t.scheme, t.raw_authority, t._val[2], t.raw_query_string, t.raw_fragment)
            except Exception as e:  # noqa: BLE001
                got = f"{type(e).__name__}: {e}"
            out.note(got != B and got != R, {"base": _assemble(B), "ref": _assemble(R), "result": got})
            if got != want:
                cls = None
                if rootless_base:
                    cls = "C14-rootless-base"
                out.fail("join != RFC 3986 5.2.2", {"base": _assemble(B), "ref": _assemble(R), "encoded": True}, got, want, cls)
                if out.full:
                    return


# =============================================================== C13: path algebra

def _pathlib_suffix(name):
    i = name.rfind(".")
    return name[i:] if 0 < i < len(name) - 1 else ""


def _pathlib_suffixes(name):
    if name.endswith("."):
        return ()
    name = name.lstrip(".")
    return tuple("." + s for s in name.split(".")[1:])


def check_path_algebra(tier, out):
    from yarl import URL
    kinds = ("a", "b.c", "", "%2F", "é", "x.tar.gz", "n.é", "p.a%20b", ".hgrc", "doc.")
    rel = _paths(kinds, 3 if tier == "quick" else 4)
    bases = []
    for p in [""] + ["/" + r for r in rel]:
        bases.append("http://h" + p)
    for p in ["/" + r for r in rel if not r.startswith("/")]:
        bases.append(p)
    for p in [r for r in rel if r and not r.startswith("/")]:
        bases.append(p)
    bases.append("")
    texts = ("a", "b.c", "é", "a b", "%", "%2F", "x.tar.gz", ".hid", "a.", "+", ":", "a:b", "?", "#", "123", "\u0661\u0662\u0663", "\xb2")
    multi = ("a/b", "a/", "a//b", "é/b.c")
    dots = (".", "..", "a/..", "../a", "./a", "..//a", "a/../..", "a/./", "../..")
    from yarl._quoters import PATH_QUOTER
    for b in bases:
        if not out.mine():
            continue
        u = URL(b, encoded=False)
        rp = u.raw_parts
        raw_path = u.raw_path
        inp = {"url": b}
        out.note(len(rp) >= 2, {"url": b, "raw_parts": rp, "child": str(u / "x y"), "with_suffix": str(u.with_suffix(".t")) if u.raw_name else None})
        # (1) raw_parts re-compose to raw_path
        if rp and rp[0] == "/":
            recomposed = "/" + "/".join(rp[1:])
        else:
            recomposed = "/".join(rp)
        if recomposed != raw_path:
            out.fail("raw_parts do not re-compose to raw_path", inp, (rp, raw_path), recomposed)
        # (2) name is the last part, suffix/suffixes are the tail of name
        parts = u.parts
        last = parts[-1] if parts and rp != ("/",) else ""
        if u.name != last:
            out.fail("name is not the last part", inp, u.name, last)
        if u.raw_name != (rp[-1] if rp and rp != ("/",) else ""):
            out.fail("raw_name is not the last raw part", inp, u.raw_name, rp)
        if u.suffix != _pathlib_suffix(u.name) or u.suffixes != _pathlib_suffixes(u.name):
            out.fail("suffix/suffixes are not the tail of name", inp, (u.suffix, u.suffixes),
                     (_pathlib_suffix(u.name), _pathlib_suffixes(u.name)))
        if u.raw_suffix != _pathlib_suffix(u.raw_name) or u.raw_suffixes != _pathlib_suffixes(u.raw_name):
            out.fail("raw_suffix/raw_suffixes are not the tail of raw_name", inp, (u.raw_suffix, u.raw_suffixes),
                     (_pathlib_suffix(u.raw_name), _pathlib_suffixes(u.raw_name)))
        base_parts = parts[:-1] if len(parts) > 1 and parts[-1] == "" else parts
        # '/' and joinpath always clear the query and the fragment (C11), also when nothing is appended
        uq = u.with_query("q=1").with_fragment("f")
        for s in ("", "a", "a/"):
            try:
                cq = uq / s
            except ValueError:
                continue
            if cq.raw_query_string != "" or cq.raw_fragment != "":
                out.fail("u / s kept the query or the fragment", {"url": str(uq), "text": s}, str(cq), "no query, no fragment")
        cq = uq.joinpath()
        if cq.raw_query_string != "" or cq.raw_fragment != "":
            out.fail("u.joinpath() kept the query or the fragment", {"url": str(uq)}, str(cq), "no query, no fragment")
        if u.host is not None:
            for a, b2 in (("a", "../b"), ("a", "./b"), ("..", "b"), ("a", "b/.."), ("a.b", "c")):
                v1, v2, v3 = u.joinpath(a, b2), u.joinpath(a).joinpath(b2), u / (a + "/" + b2)
                if not (str(v1) == str(v2) == str(v3)):
                    out.fail("joinpath(a, b), joinpath(a).joinpath(b), u / 'a/b' differ (dot segments)",
                             {"url": b, "a": a, "b": b2}, (str(v1), str(v2), str(v3)), "equal")
        for s in texts + multi + dots:
            inp = {"url": b, "text": s}
            try:
                c = u / s
            except Exception as e:  # noqa: BLE001
                out.fail("u / s raised", inp, f"{type(e).__name__}: {e}", "a URL")
                continue
            j = u.joinpath(s)
            if c != j or str(c) != str(j):
                out.fail("u / s != u.joinpath(s)", inp, str(c), str(j))
            if not str(c).isascii():
                out.fail("the string form of u / s is not ASCII (C01)", inp, str(c), "ASCII")
            if u.host is not None:
                # under an authority the child's path is the directory of u, the quoted text, and
                # RFC 3986 5.2.4 applied to the whole (C15)
                d = u.raw_path if u.raw_path.endswith("/") else u.raw_path + "/"
                want_path = d + PATH_QUOTER(s)
                if "." in want_path:
                    want_path = remove_dot_segments(want_path)
                if c.raw_path != want_path:
                    cls = None
                    if want_path.startswith("//") and c.raw_path == "/" + want_path.lstrip("/"):
                        cls = "C13-child-root-pop"     # '..' consumed the root marker, an empty segment is lost
                    out.fail("(u / s).raw_path != remove_dot_segments(directory of u + quoted s)", inp, c.raw_path, want_path, cls)
            if s in texts:
                if c.name != s:
                    out.fail("(u / s).name != s", inp, c.name, s)
                pp = c.parent.parts
                if pp == ("/", ""):
                    pp = ("/",)           # the root has two spellings: ('/',) and ('/', '')
                want = base_parts if base_parts else ()
                if want == ("/", ""):
                    want = ("/",)
                if u.raw_path in ("", "/") and u.host is not None:
                    want = ("/",)
                if pp != want and not (not want and pp == ()):
                    out.fail("(u / s).parent.parts != u.parts without a trailing empty segment", inp, pp, want)
            if s in multi or s in texts:
                segs = s.split("/")
                if len(segs) == 2 and all(x not in ("", ".", "..") for x in segs):
                    a, b2 = segs
                    v1 = u.joinpath(a, b2)
                    v2 = u.joinpath(a).joinpath(b2)
                    if not (str(v1) == str(v2) == str(c)):
                        out.fail("joinpath(a, b), joinpath(a).joinpath(b), u / 'a/b' differ", inp, (str(v1), str(v2), str(c)), "equal")
        # (5) with_name / with_suffix
        if u.raw_path not in ("", "/") and u.name not in ("", ".", ".."):
            for n in texts:
                inp = {"url": b, "name": n}
                try:
                    w = u.with_name(n)
                except Exception as e:  # noqa: BLE001
                    out.fail("with_name raised", inp, f"{type(e).__name__}: {e}", "a URL")
                    continue
                if n in (".", ".."):
                    continue
                if w.name != n:
                    out.fail("with_name(n).name != n", inp, w.name, n)
                if w.raw_parts[:-1] != u.raw_parts[:-1]:
                    out.fail("with_name changed another segment", inp, w.raw_parts, u.raw_parts)
            for x in ("", ".txt", ".é", ".t x"):
                inp = {"url": b, "suffix": x}
                try:
                    w = u.with_suffix(x)
                except Exception as e:  # noqa: BLE001
                    out.fail("with_suffix raised", inp, f"{type(e).__name__}: {e}", "a URL")
                    continue
                old = u.raw_suffix
                stem_raw = u.raw_name[:len(u.raw_name) - len(old)] if old else u.raw_name
                if not w.raw_name.startswith(stem_raw) or w.raw_parts[:-1] != u.raw_parts[:-1]:
                    out.fail("with_suffix re-encoded or changed the rest of the path", inp, w.raw_parts, (u.raw_parts, stem_raw))
                dstem = u.name[:len(u.name) - len(u.suffix)] if u.suffix else u.name
                if w.name != dstem + x:
                    out.fail("with_suffix(x).name != stem + x", inp, w.name, dstem + x)
        if out.full:
            return


# =============================================================== C06: decoding

def _utf8_decode_run(bs, texts):
    """greedy UTF-8 decoding of a run of escape bytes; a byte that does not start a valid
    sequence is kept as its original three characters.  Yields ('c', char) / ('v', text)."""
    i = 0
    n = len(bs)
    while i < n:
        b0 = bs[i]
        need = 0
        if b0 < 0x80:
            need, cp, lo = 0, b0, 0
        elif 0xC2 <= b0 <= 0xDF:
            need, cp, lo = 1, b0 & 0x1F, 0x80
        elif 0xE0 <= b0 <= 0xEF:
            need, cp, lo = 2, b0 & 0x0F, 0x800
        elif 0xF0 <= b0 <= 0xF4:
            need, cp, lo = 3, b0 & 0x07, 0x10000
        else:
            yield ("v", texts[i])
            i += 1
            continue
        ok = need == 0 or (i + need <= n - 1 and all(0x80 <= bs[i + k] <= 0xBF for k in range(1, need + 1)))
        if ok and need:
            for k in range(1, need + 1):
                cp = (cp << 6) | (bs[i + k] & 0x3F)
            if cp < lo or cp > 0x10FFFF or 0xD800 <= cp <= 0xDFFF:
                ok = False
        if ok:
            yield ("c", chr(cp))
            i += need + 1
        else:
            yield ("v", texts[i])
            i += 1


HEX = "0123456789abcdefABCDEF"
# RFC 3986 unreserved + sub-delims: what stays literal when a decoded character is "kept escaped"
# by re-quoting it as generic component text
GENERIC_LITERALS = set("abcdefghijklmnopqrstuvwxyzABCDEFGHIJKLMNOPQRSTUVWXYZ0123456789-._~!$'()*,+&=;")


def _requote(c):
    if c in GENERIC_LITERALS:
        return c
    return "".join("%%%02X" % b for b in c.encode("utf-8"))


def ref_unquote(val, ignore="", unsafe="", qs=False):
    """reference decoder for an unquoter configuration (C06): escapes decode as UTF-8, invalid
    ones stay verbatim; characters that are significant in the component stay escaped"""
    out = []
    i = 0
    n = len(val)
    while i < n:
        if val[i] == "%" and i + 2 <= n - 1 and val[i + 1] in HEX and val[i + 2] in HEX:
            bs, texts = [], []
            while i + 2 <= n - 1 and val[i] == "%" and val[i + 1] in HEX and val[i + 2] in HEX:
                bs.append(int(val[i + 1:i + 3], 16))
                texts.append(val[i:i + 3])
                i += 3
            for kind, x in _utf8_decode_run(bs, texts):
                if kind == "v":
                    out.append(x)
                elif qs and x in "+=&;":
                    out.append("%%%02X" % ord(x))
                elif x in unsafe or x in ignore:
                    out.append(_requote(x))
                else:
                    out.append(x)
            continue
        ch = val[i]
        i += 1
        if ch == "+":
            out.append(" " if (qs and "+" not in unsafe) else "+")
        elif ch in unsafe:
            out.append("".join("%%%02X" % b for b in ch.encode("utf-8")))
        else:
            out.append(ch)
    return "".join(out)


UNQUOTER_CONFIGS = {
    "UNQUOTER": {}, "PATH_UNQUOTER": {"unsafe": "+"}, "PATH_SAFE_UNQUOTER": {"ignore": "/%", "unsafe": "+"},
    "QS_UNQUOTER": {"qs": True},
}


def check_decode(tier, out):
    from yarl import URL, _quoters
    alpha = ("%", "4", "1", "C", "3", "A", "9", "+", "a", "/", "é", "2", "F", "b", "5")
    L = 5 if tier == "quick" else 6
    alpha_q = alpha[:9] if tier == "quick" else alpha[:11]
    # (a) unquoter level: all short strings
    real = {name: getattr(_quoters, name) for name in UNQUOTER_CONFIGS}
    for n in range(0, L + 1):
        for tup in itertools.product(alpha_q, repeat=n):
            if not out.mine():
                continue
            s = "".join(tup)
            out.note(ref_unquote(s) != s, {"text": s, "decoded": ref_unquote(s), "as query": ref_unquote(s, qs=True)})
            for name, cfg in UNQUOTER_CONFIGS.items():
                got = real[name](s)
                want = ref_unquote(s, **cfg)
                if got != want:
                    out.fail(f"{name}(text) != reference decoding", {"unquoter": name, "text": s}, got, want)
                    if out.full:
                        return
    # (b) escape runs of every UTF-8 shape
    leads = (0x00, 0x41, 0x7F, 0x80, 0xBF, 0xC0, 0xC1, 0xC2, 0xDF, 0xE0, 0xE1, 0xED, 0xEF, 0xF0, 0xF1, 0xF4, 0xF5, 0xFF, 0x25, 0x2B, 0x2F)
    conts = (0x7F, 0x80, 0x8F, 0x90, 0x9F, 0xA0, 0xBF, 0xC0, 0x41)
    runs = []
    for b0 in leads:
        runs.append((b0,))
        for b1 in conts:
            runs.append((b0, b1))
            if b0 >= 0xE0:
                for b2 in (0x80, 0xBF, 0x41, 0xC2):
                    runs.append((b0, b1, b2))
                    if b0 >= 0xF0:
                        for b3 in (0x80, 0xBF, 0x41):
                            runs.append((b0, b1, b2, b3))
    for run in runs:
        for fmt in ("%%%02X", "%%%02x"):
            for tail in ("", "a", "%", "%4", "%41", "%C3%A9"):
                if not out.mine():
                    continue
                s = "".join(fmt % b for b in run) + tail
                for name, cfg in UNQUOTER_CONFIGS.items():
                    got = real[name](s)
                    want = ref_unquote(s, **cfg)
                    if got != want:
                        out.fail(f"{name}(text) != reference decoding", {"unquoter": name, "text": s}, got, want)
                        if out.full:
                            return
    # (b1) digits that are not ASCII are not hex digits
    for s in ("%\u0663\u0663", "%4\u0663", "%\u06631", "a%\uff11\uff11b", "%\u00b2\u00b2"):
        if not out.mine():
            continue
        for name, cfg in UNQUOTER_CONFIGS.items():
            got = real[name](s)
            want = ref_unquote(s, **cfg)
            if got != want:
                out.fail(f"{name}(text) != reference decoding", {"unquoter": name, "text": s}, got, want)
    # (b2) results do not depend on earlier calls (C08): a text that ends in an incomplete escape
    # sequence followed by a text that starts with continuation bytes, on the long-lived instances
    tails = ("%E2%82", "%C3", "%F0%9F", "%F0%9F%98", "a%E2", "%e2%82", "%C3%")
    heads = ("%AC", "%A9", "%98%80", "%80", "%82%AC", "a", "%ac", "", "%41")
    for t1 in tails:
        for h2 in heads:
            if not out.mine():
                continue
            for name, cfg in UNQUOTER_CONFIGS.items():
                real[name](t1)
                got = real[name](h2)
                want = ref_unquote(h2, **cfg)
                if got != want:
                    out.fail(f"{name}(text) depends on the previous call", {"unquoter": name, "previous": t1, "text": h2}, got, want)
                    real[name]("a")
    # (c) accessor level: decoded accessors are the unquoters applied to the raw components
    comps = ("", "a", "a%2Fb", "a%2fb", "a%2Bb+c", "%C3%A9", "%c3%a9", "%E9", "%25", "a%3Db", "a%3db", "%zz", "é")
    for c in comps:
        if not out.mine():
            continue
        u = URL(f"http://{c or 'u'}:{c}@h/{c}/x.{c}?{c}={c}#{c}", encoded=True)
        inp = {"url": str(u), "encoded": True}
        checks = (
            ("user", u.user, ref_unquote(u.raw_user) if u.raw_user is not None else None),
            ("password", u.password, ref_unquote(u.raw_password) if u.raw_password is not None else None),
            ("path", u.path, ref_unquote(u.raw_path, unsafe="+")),
            ("path_safe", u.path_safe, ref_unquote(u.raw_path, ignore="/%", unsafe="+")),
            ("fragment", u.fragment, ref_unquote(u.raw_fragment)),
            ("query_string", u.query_string, ref_unquote(u.raw_query_string, qs=True)),
            ("name", u.name, ref_unquote(u.raw_name)),
            ("suffix", u.suffix, ref_unquote(u.raw_suffix)),
            ("parts", u.parts, tuple(ref_unquote(p) for p in u.raw_parts)),
        )
        for nm, got, want in checks:
            if got != want:
                out.fail(f"decoded accessor {nm} != reference decoding of the raw component", inp, got, want)
    # (d) supplied decoded values read back unchanged
    chars = ("a", "%", "+", " ", "/", "?", "#", ":", "@", "=", "&", ";", "é", "\U0001f600", "\x7f", "[", "]", "%2F", "%zz", ".", "..")
    base = URL("http://h/p/n?k=v#f")
    for t in [a + b for a in chars for b in ("",) + chars[:8]]:
        if not out.mine():
            continue
        inp = {"text": t}
        try:
            if base.with_user(t).user != t:
                out.fail("with_user(t).user != t", inp, base.with_user(t).user, t)
            if base.with_user("u").with_password(t).password != t:
                out.fail("with_password(t).password != t", inp, base.with_user("u").with_password(t).password, t)
            if base.with_fragment(t).fragment != t:
                out.fail("with_fragment(t).fragment != t", inp, base.with_fragment(t).fragment, t)
            qv = base.with_query({"k": t}).query.get("k")
            if qv != t:
                out.fail("with_query({'k': t}).query['k'] != t", inp, qv, t)
            qk = list(base.with_query({t: "v"}).query.keys())
            if qk != [t]:
                out.fail("with_query({t: 'v'}) key != t", inp, qk, [t])
            dotty = any(seg in (".", "..") for seg in t.split("/"))
            if not dotty:
                got = base.with_path("/" + t).path
                if got != "/" + t:
                    out.fail("with_path('/' + t).path != '/' + t", inp, got, "/" + t)
                got = URL.build(scheme="http", host="h", path="/" + t).path
                if got != "/" + t:
                    out.fail("build(path='/' + t).path != '/' + t", inp, got, "/" + t)
                if "/" not in t:
                    if base.with_name(t).name != t:
                        out.fail("with_name(t).name != t", inp, base.with_name(t).name, t)
                    if (base / t).name != t:
                        out.fail("(u / t).name != t", inp, (base / t).name, t)
                    if base.joinpath(t).name != t:
                        out.fail("u.joinpath(t).name != t", inp, base.joinpath(t).name, t)
        except Exception as e:  # noqa: BLE001
            out.fail("supplying a decoded value raised", inp, f"{type(e).__name__}: {e}", "value read back")
        if out.full:
            return


# =============================================================== C18: human_repr

def check_human_repr(tier, out):
    from yarl import URL
    specials = ("#", "/", ":", "?", "@", "[", "]", "%", " ", "&", "=", "+", ";", "\x01", "\x7f", "\xe9", "\u044f", "\U0001f600",
                "a", "\u200b", "\xa0", "\uff0f", "\u2100", "\uff1a", "\t", "\n", "\r", "\U00010000", "\uffff")
    texts = [""] + list(specials) + [a + b for a in specials for b in ("a",) + specials[:8]]
    if tier != "quick":
        texts += [a + b for a in specials for b in specials[8:]]
    hosts = ("example.com", "хост.рф", "127.0.0.1", "::1", "fe80::1%eth0")
    comps = ("user", "password", "path", "qkey", "qval", "fragment")
    for comp in comps:
        for t in texts:
            for host in (hosts if (t in ("", "é", "#") or tier != "quick") else hosts[:1]):
                if not out.mine():
                    continue
                kw = dict(scheme="http", host=host)
                if comp == "user":
                    kw["user"] = t
                elif comp == "password":
                    kw["user"] = "u"
                    kw["password"] = t
                elif comp == "path":
                    if any(seg in (".", "..") for seg in t.split("/")):
                        continue
                    kw["path"] = "/" + t
                elif comp == "qkey":
                    kw["query"] = {t: "v"}
                elif comp == "qval":
                    kw["query"] = {"k": t}
                else:
                    kw["fragment"] = t
                inp = {"build": {k: v for k, v in kw.items()}}
                try:
                    u = URL.build(**kw)
                except ValueError:
                    continue
                try:
                    h = u.human_repr()
                    back = URL(h)
                except Exception as e:  # noqa: BLE001
                    out.fail("human_repr round trip raised", inp, f"{type(e).__name__}: {e}", str(u))
                    continue
                out.note(h != str(u), {"build": inp["build"], "human_repr": h, "str": str(u)})
                if back != u:
                    cls = None
                    out.fail("URL(u.human_repr()) != u", inp, (h, str(back)), str(u), cls)
                # readable: printable non-ASCII text of the component appears decoded
                for ch in t:
                    if comp in ("user", "password") and any(d in unicodedata.normalize("NFKC", ch) for d in "/?#@:"):
                        continue        # would change the parse in this position: the parser rejects it
                    if ord(ch) > 127 and ch.isprintable() and ch not in h:
                        out.fail("printable non-ASCII text is escaped in human_repr()", inp, h, ch)
                for ch in t:
                    if not ch.isprintable() and ch in h:
                        out.fail("non-printable character shown raw in human_repr()", inp, h, "escaped")
                if host == "хост.рф" and "хост.рф" not in h:
                    out.fail("IDN host is not shown decoded", inp, h, host)
                if out.full:
                    return
    # whole queries: several pairs, repeated keys, blank keys / values, order
    for pairs in ([("a", "1"), ("a", "2")], [("a", "2"), ("b", "x"), ("a", "1")], [("k", ""), ("k", "v"), ("", "v")],
                  [("é", "я"), ("é", "&"), ("é", "=")], [("a b", "c d"), ("a b", "+"), ("a b", ";")], [("x", "1")] * 3 + [("x", "2")]):
        if not out.mine():
            continue
        u = URL.build(scheme="http", host="example.com", path="/p").with_query(pairs)
        inp = {"with_query": pairs}
        try:
            h = u.human_repr()
            back = URL(h)
        except Exception as e:  # noqa: BLE001
            out.fail("human_repr round trip raised", inp, f"{type(e).__name__}: {e}", str(u))
            continue
        out.note(h != str(u), {"with_query": pairs, "human_repr": h, "str": str(u)})
        if back != u or list(back.query.items()) != pairs:
            out.fail("URL(u.human_repr()) != u (query pairs)", inp, (h, list(back.query.items())), pairs)


# =============================================================== C03: canonical string is a fixed point

def fixed_point_cases(tier):
    schemes = ("http", "https", "", "x-y", "HTTP")
    userinfos = ("", "u@", "u:p@", "%41:%3a@", "é:@", ":p@")
    hosts = ("h", "EXAMPLE.com", "хост.рф", "127.0.0.1", "[::1]", "[FE80::1%25eth0]", "[v1.x:y]", "a%2eb", "xn--e1afmkfd.xn--p1ai",
             "a\uff3bb", "\uff41\uff0e\uff42")
    ports = ("", ":80", ":443", ":8080", ":")
    paths = ("", "/", "/a/b", "/a/./b/../c", "/%2e%2E/x", "/a%2Fb", "/é", "/a b", "//x", "/a:b", "/%zz", "/+%2B")
    queries = ("", "?", "?a=b", "?a=%26&c=d+e", "?é=%C3%A9", "?a=b;c", "?%zz")
    frags = ("", "#", "#f", "#%23é", "#a?b/c")
    if tier == "quick":
        hosts = hosts[:7] + hosts[-2:]
        paths = paths[:9]
        queries = queries[:5]
        frags = frags[:4]
    for s in schemes:
        for ui in userinfos:
            for h in hosts:
                for po in ports:
                    for p in paths:
                        for q in queries:
                            for f in frags:
                                yield (s + ":" if s else "") + "//" + ui + h + po + p + q + f
    # authorities made of delimiters only
    for s in ("//@", "//:", "//@:", "foo://@/p", "//@:?#", "foo://:@/p", "foo://:80/p", "foo://u@/p", "//:@"):
        yield s
    # authority-less
    for s in ("", "mailto", "http"):
        for p in ("", "a", "a/b", "/a", "./a:b", "a%3Ab", "../x", "a//b", "/.//x", "é"):
            for q in queries[:3]:
                for f in frags[:3]:
                    yield (s + ":" if s else "") + p + q + f


COMPONENTS = ("scheme", "raw_user", "raw_password", "raw_host", "port", "explicit_port", "raw_path", "raw_query_string",
              "raw_fragment", "user", "password", "host", "path", "query_string", "fragment")


def _view(u):
    return tuple(getattr(u, c) for c in COMPONENTS)


def _fp_class(u):
    """known classes of URLs whose string form is not a fixed point (known_findings.json)"""
    from yarl._parse import USES_AUTHORITY
    if u.raw_host is None and u._val[1] == "":
        p = u._val[2]
        if u.scheme == "" and ":" in p.split("/")[0]:
            return "C03-colon-in-first-segment"
        if u.scheme in USES_AUTHORITY and u.scheme != "" and p and not p.startswith("/"):
            return "C03-scheme-rootless-path"
    return None


def _fixed(u, inp, out, how):
    if u.scheme in ("http", "https", "ws", "wss", "ftp") and not u.raw_host:
        # a special scheme without a host is not valid input for the parser (it demands a host);
        # build() and with_scheme() do not check it -- outside C03's "valid input ... valid host"
        return
    cls = _fp_class(u)
    try:
        s1 = str(u)
        v = type(u)(s1)
        s2 = str(v)
    except Exception as e:  # noqa: BLE001
        out.fail(f"re-parsing str(url) raised ({how})", inp, f"{type(e).__name__}: {e}", "a URL", cls)
        return
    if s2 != s1:
        out.fail(f"str(URL(str(url))) != str(url) ({how})", inp, s2, s1, cls)
        return
    a, b = _view(u), _view(v)
    if a != b:
        d = [(c, x, y) for c, x, y in zip(COMPONENTS, a, b) if x != y]
        if all(c in ("explicit_port",) for c, _, _ in d):
            # an explicit default port is dropped by str(): documented normalisation (C17), and
            # the property's component list names `port`, which agrees
            return
        if cls is None and u._val[1] == "" and all(c in ("raw_host", "host") and x == "" and y is None for c, x, y in d):
            cls = "C09-vanishing-authority"     # same root cause as the pickled-copy difference below
        out.fail(f"components of URL(str(url)) differ ({how})", inp, d[:3], "identical components", cls)


def check_fixed_point(tier, out):
    from yarl import URL
    for s in fixed_point_cases(tier):
        if not out.mine():
            continue
        try:
            u = URL(s)
        except (ValueError, TypeError):
            continue
        inp = {"url": s}
        out.note(str(u) != s, {"url": s, "str": str(u)})
        _fixed(u, inp, out, "parsed")
        if u.raw_host is not None and any(seg in (".", "..") for seg in u.raw_path.split("/")):
            out.fail("a parsed URL with an authority keeps a dot segment (C15)", inp, u.raw_path, "no dot segment")
        # C09: the eagerly filled accessors agree with those of a pickled copy (computed lazily)
        v = pickle.loads(pickle.dumps(u))
        a, b = _view(u), _view(v)
        if a != b:
            d = [(c, x, y) for c, x, y in zip(COMPONENTS, a, b) if x != y]
            cls = None
            if u._val[1] == "" and all(c in ("raw_host", "host") and x == "" and y is None for c, x, y in d):
                cls = "C09-vanishing-authority"
            out.fail("eager accessors differ from those of a pickled copy (C09)", inp, d[:3], "identical", cls)
        if out.i % 7 == 0:
            mods = (("with_fragment('a#b')", lambda x: x.with_fragment("a#b")), ("with_path('/p/../q r')", lambda x: x.with_path("/p/../q r")),
                    ("with_query('a=b c')", lambda x: x.with_query("a=b c")), ("with_scheme('https')", lambda x: x.with_scheme("https")),
                    ("with_port(443)", lambda x: x.with_port(443)), ("with_host('EXAMPLE.org')", lambda x: x.with_host("EXAMPLE.org")),
                    ("with_host('::1')", lambda x: x.with_host("::1")), ("with_user('u:v')", lambda x: x.with_user("u:v")),
                    ("/ 'x y'", lambda x: x / "x y"), ("with_name('n.m')", lambda x: x.with_name("n.m")),
                    ("parent", lambda x: x.parent), ("origin()", lambda x: x.origin()), ("relative()", lambda x: x.relative()))
            for nm, fn in mods:
                try:
                    w = fn(u)
                except (ValueError, TypeError):
                    continue
                _fixed(w, {"url": s, "then": nm}, out, "modified")
        if out.full:
            return




# =============================================================== C11: modifiers change only their own component

def check_modifiers(tier, out):
    """every with_* modifier, origin() and relative() applied to a corpus of URLs: all components
    other than the one named are exactly as before (explicit port, userinfo, host, path, query,
    fragment, scheme), and the named one reads back"""
    from yarl import URL
    urls = []
    for scheme in ("http", "https", "x"):
        for ui in ("", "u@", "u:p@", "%41:%3a@"):
            for host in ("h", "example.com", "[::1]", "127.0.0.1", "xn--e1afmkfd.xn--p1ai"):
                for port in ("", ":80", ":8080", ":0", ":65535"):
                    for path in ("", "/", "/a/b.c", "/a%2Fb/"):
                        for qf in ("", "?q=1", "#f", "?a=b&c=d#frag"):
                            urls.append(f"{scheme}://{ui}{host}{port}{path}{qf}")
    fields = ("scheme", "raw_user", "raw_password", "raw_host", "explicit_port", "raw_path", "raw_query_string", "raw_fragment")

    def view(u):
        d = {f: getattr(u, f) for f in fields}
        d["raw_path"] = u._val[2]        # the stored path (the accessor shows '/' for an empty path under an authority)
        return d
    mods = (
        ("with_scheme('https')", lambda u: u.with_scheme("https"), {"scheme"}, lambda v: v["scheme"] == "https"),
        ("with_user('new user')", lambda u: u.with_user("new user"), {"raw_user"}, lambda v: v["raw_user"] == "new%20user"),
        ("with_user(None)", lambda u: u.with_user(None), {"raw_user", "raw_password"}, lambda v: v["raw_user"] is None and v["raw_password"] is None),
        ("with_password('p w')", lambda u: u.with_password("p w"), {"raw_password"}, lambda v: v["raw_password"] == "p%20w"),
        ("with_password(None)", lambda u: u.with_password(None), {"raw_password"}, lambda v: v["raw_password"] is None),
        ("with_host('EXAMPLE.org')", lambda u: u.with_host("EXAMPLE.org"), {"raw_host"}, lambda v: v["raw_host"] == "example.org"),
        ("with_host('::2')", lambda u: u.with_host("::2"), {"raw_host"}, lambda v: v["raw_host"] == "::2"),
        ("with_port(8443)", lambda u: u.with_port(8443), {"explicit_port"}, lambda v: v["explicit_port"] == 8443),
        ("with_port(65535)", lambda u: u.with_port(65535), {"explicit_port"}, lambda v: v["explicit_port"] == 65535),
        ("with_port(0)", lambda u: u.with_port(0), {"explicit_port"}, lambda v: v["explicit_port"] == 0),
        ("with_port(None)", lambda u: u.with_port(None), {"explicit_port"}, lambda v: v["explicit_port"] is None),
        ("with_path('/x y')", lambda u: u.with_path("/x y"), {"raw_path", "raw_query_string", "raw_fragment"},
         lambda v: v["raw_path"] == "/x%20y" and v["raw_query_string"] == "" and v["raw_fragment"] == ""),
        ("with_path('/x', keep_query=True, keep_fragment=True)", lambda u: u.with_path("/x", keep_query=True, keep_fragment=True),
         {"raw_path"}, lambda v: v["raw_path"] == "/x"),
        ("with_query('k=v w')", lambda u: u.with_query("k=v w"), {"raw_query_string"}, lambda v: v["raw_query_string"] == "k=v+w"),
        ("with_query(None)", lambda u: u.with_query(None), {"raw_query_string"}, lambda v: v["raw_query_string"] == ""),
        ("with_fragment('a b')", lambda u: u.with_fragment("a b"), {"raw_fragment"}, lambda v: v["raw_fragment"] == "a%20b"),
        ("with_fragment(None)", lambda u: u.with_fragment(None), {"raw_fragment"}, lambda v: v["raw_fragment"] == ""),
        ("with_name('n m')", lambda u: u.with_name("n m"), {"raw_path", "raw_query_string", "raw_fragment"},
         lambda v: v["raw_path"].endswith("/n%20m") and v["raw_query_string"] == "" and v["raw_fragment"] == ""),
        ("with_suffix('.t')", lambda u: u.with_suffix(".t"), {"raw_path", "raw_query_string", "raw_fragment"},
         lambda v: v["raw_path"].endswith(".t") and v["raw_query_string"] == ""),
        ("origin()", lambda u: u.origin(), {"raw_user", "raw_password", "raw_path", "raw_query_string", "raw_fragment"},
         lambda v: v["raw_user"] is None and v["raw_password"] is None and v["raw_path"] == "" and v["raw_query_string"] == "" and v["raw_fragment"] == ""),
        ("relative()", lambda u: u.relative(), {"scheme", "raw_user", "raw_password", "raw_host", "explicit_port"},
         lambda v: v["scheme"] == "" and v["raw_host"] is None and v["explicit_port"] is None),
    )
    for s in urls:
        if not out.mine():
            continue
        try:
            u = URL(s)
        except ValueError:
            continue
        before = view(u)
        out.note(before["raw_user"] is not None or before["explicit_port"] is not None, {"url": s, "view": {k: before[k] for k in fields}})
        for name, fn, may_change, reads_back in mods:
            inp = {"url": s, "modifier": name}
            try:
                w = fn(u)
            except (ValueError, TypeError) as e:
                # every URL of the corpus is absolute and every argument valid: only with_name /
                # with_suffix may refuse (a URL without a name)
                if not name.startswith(("with_name", "with_suffix")):
                    out.fail("a modifier rejected a valid argument", inp, f"{type(e).__name__}: {e}", "a URL")
                continue
            after = view(w)
            changed = {f for f in fields if after[f] != before[f]}
            if not changed <= may_change:
                out.fail("a modifier changed a component other than its own", inp, {f: (before[f], after[f]) for f in sorted(changed - may_change)}, "unchanged")
            elif not reads_back(after):
                out.fail("the modified component does not read back", inp, {f: after[f] for f in sorted(may_change)}, name)
        if out.full:
            return

# =============================================================== C12: query algebra

def _pairs(u):
    return [(k, v) for k, v in u.query.items()]


class _Text(str):
    """a str subclass (the library takes the subclass route of query_var for it)"""


def _expand(q):
    """pairs denoted by a mapping / sequence argument (list or tuple values repeat the key; numbers by str())"""
    items = q.items() if hasattr(q, "items") else q
    out = []
    for k, v in items:
        if isinstance(v, (list, tuple)):
            out.extend((k, str(x)) for x in v)
        else:
            out.append((k, str(v)))
    return out


def _update_ok(existing, new, got):
    """the property's update_query clause: every pair whose key occurs in `new` is replaced -- the
    pairs of the result with such a key are exactly the pairs of `new` (as a multiset, and in new's
    order per key) -- and every other pair is kept in order; where the new pairs are placed is
    not specified"""
    newkeys = {k for k, _ in new}
    kept_want = [(k, v) for k, v in existing if k not in newkeys]
    kept_got = [(k, v) for k, v in got if k not in newkeys]
    repl_got = [(k, v) for k, v in got if k in newkeys]
    per_key_ok = all([v for k2, v in repl_got if k2 == k] == [v for k2, v in new if k2 == k] for k in newkeys)
    return kept_got == kept_want and len(repl_got) == len(new) and per_key_ok


def check_query_algebra(tier, out):
    import copy
    from multidict import MultiDict
    from yarl import URL
    keys = ("a", "b", "a&b", "k=v", "p+q", "x;y", "é", "", "a b", "%41")
    vals = ("1", "", "x y", "&", "=", "+", "é", "%2B", "#")
    existing_qs = [[], [("a", "1")], [("a", "1"), ("b", "2"), ("a", "3")], [("a&b", "1"), ("k=v", "2")], [("p+q", "x y"), ("", "")],
                   [("x;y", "+"), ("é", "é"), ("a", "")]]
    if tier != "quick":
        existing_qs += [[(k, v)] for k in keys for v in vals[:4]]
    base = URL("http://h/p#f")
    for ex_pairs in existing_qs:
        u = base.with_query(ex_pairs) if ex_pairs else base
        if _pairs(u) != ex_pairs:
            out.fail("with_query(pairs) does not yield exactly the pairs", {"pairs": ex_pairs}, _pairs(u), ex_pairs)
        for k in keys:
            for v in vals:
                if not out.mine():
                    continue
                out.note(bool(ex_pairs), {"existing": ex_pairs, "key": k, "value": v})
                forms = (("dict", {k: v}), ("pairs", [(k, v)]), ("MultiDict", MultiDict([(k, v), (k, "2")])),
                         ("dict-list", {k: [v, "2"]}), ("dict-int", {k: 7}), ("dict-float", {k: 1.5}),
                         # values whose text is produced by the library (str() of a number, a str subclass):
                         # it is quoted like any other text ('+' of an exponent must not read back as a space)
                         ("dict-float-exponent", {k: 1e+20}), ("pairs-float-exponent", [(k, 1e+20)]),
                         ("pairs-str-subclass", [(k, _Text(v))]), ("dict-str-subclass", {k: [_Text(v)]}))
                for fname, q in forms:
                    inp = {"existing": ex_pairs, "form": fname, "query": repr(q)}
                    snapshot = copy.deepcopy(q)
                    want_new = _expand(q)
                    try:
                        w, e, up = u.with_query(q), u.extend_query(q), u.update_query(q)
                    except Exception as ex:  # noqa: BLE001
                        out.fail("query operation raised", inp, f"{type(ex).__name__}: {ex}", "a URL")
                        continue
                    if q != snapshot:
                        out.fail("the argument was mutated", inp, q, snapshot)
                    if _pairs(w) != want_new:
                        out.fail("with_query(q) != pairs of q", inp, _pairs(w), want_new)
                    if _pairs(e) != ex_pairs + want_new:
                        out.fail("extend_query(q) != existing + pairs of q", inp, _pairs(e), ex_pairs + want_new)
                    if not _update_ok(ex_pairs, want_new, _pairs(up)):
                        out.fail("update_query(q) does not replace exactly q's keys and keep the other pairs in order", inp, _pairs(up),
                                 {"kept": [(a, b) for a, b in ex_pairs if a not in {x for x, _ in want_new}], "new": want_new})
                    for r in (w, e, up):
                        if not str(r).isascii() or any(ch in r.raw_query_string for ch in ' "<>#`{}|\\^'):
                            out.fail("the query of the result is not well-formed ASCII (C01)", inp, r.raw_query_string, "quoted text")
                        if (r.scheme, r.raw_authority, r.raw_path, r.raw_fragment) != (u.scheme, u.raw_authority, u.raw_path, u.raw_fragment):
                            out.fail("a query operation changed another component", inp, str(r), str(u))
                # kwargs form
                if k.isidentifier():
                    if _pairs(u.with_query(**{k: v})) != [(k, v)]:
                        out.fail("with_query(**kwargs) != the pair", {"key": k, "value": v}, _pairs(u.with_query(**{k: v})), [(k, v)])
                # without_query_params removes exactly the named keys
                wq = u.without_query_params(k)
                want = [(kk, vv) for kk, vv in ex_pairs if kk != k]
                if _pairs(wq) != want:
                    out.fail("without_query_params(k) does not remove exactly k", {"existing": ex_pairs, "key": k}, _pairs(wq), want)
                # string form
                es = u.extend_query("z=" + "1")
                if _pairs(es) != ex_pairs + [("z", "1")]:
                    out.fail("extend_query(str) != existing + pairs", {"existing": ex_pairs}, _pairs(es), ex_pairs + [("z", "1")])
        # raw splice of extend_query: the existing raw query is kept byte for byte, '&' is inserted
        # unless it already ends with '&'
        for rawq in ("a=1;", "k;", "a=1&", "a=1", "a=%3B", "a=1&&"):
            ub = URL("http://h/p?" + rawq, encoded=True)
            got = ub.extend_query("n=v").raw_query_string
            want = rawq + ("" if rawq.endswith("&") else "&") + "n=v"
            if got != want:
                out.fail("extend_query(str) does not append after the existing raw query", {"existing_raw": rawq, "arg": "n=v"}, got, want)
        # None / rejected values
        if _pairs(u.with_query(None)) != [] or _pairs(u.update_query(None)) != [] or _pairs(u.extend_query(None)) != ex_pairs:
            out.fail("None does not clear (with/update) or keep (extend) the query", {"existing": ex_pairs}, "?", "cleared / kept")
        # arity: no argument, two positional arguments, positional and keyword together -> ValueError (C19: nothing else)
        for opname in ("with_query", "extend_query", "update_query"):
            for a, kw in (((), {}), (("a=1", "b=2"), {}), (("a=1",), {"b": "2"}), (({"a": "1"}, {"b": "2"}), {})):
                try:
                    getattr(u, opname)(*a, **kw)
                except ValueError:
                    continue
                except Exception as ex:  # noqa: BLE001
                    out.fail(f"{opname} with a wrong number of arguments raised something other than ValueError",
                             {"existing": ex_pairs, "args": repr(a), "kwargs": repr(kw)}, f"{type(ex).__name__}: {ex}", "ValueError")
                    continue
                out.fail(f"{opname} accepted a wrong number of arguments", {"existing": ex_pairs, "args": repr(a), "kwargs": repr(kw)},
                         "accepted", "ValueError")
        for bad in (True, None, float("nan"), float("inf"), b"x", bytearray(b"x")):
            for opname in ("with_query", "extend_query", "update_query"):
                try:
                    getattr(u, opname)({"k": bad})
                except (TypeError, ValueError):
                    continue
                except Exception as ex:  # noqa: BLE001
                    out.fail(f"{opname} raised the wrong exception for a rejected value", {"value": repr(bad)}, type(ex).__name__, "TypeError/ValueError")
                    continue
                out.fail(f"{opname} accepted a value that must be rejected", {"value": repr(bad)}, "accepted", "TypeError/ValueError")
        if out.full:
            return


# =============================================================== conformance: real function vs executable specification

def _outcome(fn, *args):
    try:
        return ("ok", fn(*args))
    except (ValueError, TypeError, UnicodeError) as e:
        return ("raise", ValueError.__name__ if isinstance(e, ValueError) else type(e).__name__)
    except Exception as e:  # noqa: BLE001
        return ("raise", type(e).__name__)


def check_conformance_parse(tier, out):
    """yarl._parse.split_url / split_netloc / make_netloc against the executable specifications the
    proofs are stated against (contracts/spec_parse.py, RFC 3986 Appendix B and 3.2), on all short
    strings over the delimiter alphabet -- a fallback that still decides when a restructured
    function leaves the contract's cut points undecided"""
    from yarl import _parse
    from contracts import spec_parse
    alpha = ("a", ":", "/", "?", "#", "[", "]", "@", "\n", "1", "+", ".", "\t", "Z")
    L = 5 if tier == "quick" else 6
    for n in range(0, L + 1):
        for tup in itertools.product(alpha if n <= 4 else alpha[:10], repeat=n):
            if not out.mine():
                continue
            s = "".join(tup)
            got, want = _outcome(_parse.split_url, s), _outcome(spec_parse.split_url, s)
            out.note(got[0] == "ok" and got[1][1] != "", {"url": s, "parts": got[1] if got[0] == "ok" else got})
            if got[0] == "ok":
                got = ("ok", tuple(got[1]))
            if want[0] == "ok":
                want = ("ok", tuple(want[1]))
            if got != want:
                out.fail("split_url != RFC 3986 Appendix B decomposition (specification)", {"url": s}, got, want)
                if out.full:
                    return
    nalpha = ("a", ":", "@", "[", "]", "1", "%", ".", "0", "6")
    for n in range(0, (6 if tier == "quick" else 7) + 1):
        for tup in itertools.product(nalpha if n <= 5 else nalpha[:7], repeat=n):
            if not out.mine():
                continue
            s = "".join(tup)
            got, want = _outcome(_parse.split_netloc, s), _outcome(spec_parse.split_netloc, s)
            if got[0] == "ok":
                got = ("ok", tuple(got[1]))
            if want[0] == "ok":
                want = ("ok", tuple(want[1]))
            if got != want:
                out.fail("split_netloc != RFC 3986 3.2 decomposition (specification)", {"netloc": s}, got, want)
                if out.full:
                    return
    parts = (None, "", "u", "p w", "a:b", "é")
    for user in parts:
        for pw in parts:
            for host in (None, "", "h", "[::1]"):
                for port in (None, 0, 80, 65535):
                    for enc in (False, True):
                        if not out.mine():
                            continue
                        got = _outcome(_parse.make_netloc, user, pw, host, port, enc)
                        want = _outcome(spec_parse.make_netloc, user, pw, host, port, enc)
                        if got != want:
                            out.fail("make_netloc != RFC 3986 3.2 assembly (specification)",
                                     {"user": user, "password": pw, "host": host, "port": port, "encode": enc}, got, want)


def check_conformance_path(tier, out):
    """yarl._path.normalize_path (the real function) against RFC 3986 5.2.4 literally, on rooted
    paths of up to 6 (quick) / 7 (thorough) segments over 7 kinds"""
    from yarl._path import normalize_path
    kinds = (".", "..", "", "a", ".a", "a.", "...")
    L = 6 if tier == "quick" else 7
    for n in range(0, L + 1):
        for segs in itertools.product(kinds, repeat=n):
            if not out.mine():
                continue
            path = "/" + "/".join(segs)
            got = normalize_path(path)
            want = remove_dot_segments(path)
            out.note(got != path, {"path": path, "normalized": got})
            if got != want:
                out.fail("normalize_path(path) != RFC 3986 5.2.4 remove_dot_segments(path)", {"path": path}, got, want)
                if out.full:
                    return


def check_conformance_host(tier, out):
    """yarl._url._encode_host against the specification (contracts/spec_url.py:encode_host) on a
    corpus of reg-names, IPv4 / IPv6 literals with and without zone ids (upper and lower case),
    IDN labels and every ASCII character in host position, with validation on and off"""
    from yarl._url import _encode_host
    from contracts import spec_url
    hosts = ["", "example.com", "EXAMPLE.Com", "a_b", "a%2Fb", "a%2fb", "a%zz", "xn--e1afmkfd", "\u0445\u043e\u0441\u0442.\u0440\u0444",
             "\u0425\u041e\u0421\u0422.\u0420\u0424", "b\u00fccher.de", "B\u00dcCHER.DE", "127.0.0.1", "127.000.0.1", "1.2.3", "1.2.3.4%eth0", "1.2.3.4%Eth0",
             "::1", "::", "FE80::1", "fe80::1%eth0", "FE80::1%Eth0", "fe80::1%25en0", "2001:DB8::FF00:42:8329", "::ffff:1.2.3.4",
             "v1.x:y", "V1.X:Y", "a:b", "1", "0x7f.1", "h\u00e9.example", "\u00ad", "a..b", "-a-", "a" * 64 + ".com",
             "fe80::1%a:b", "1.2.3.4%a:b", "::1%", "::1%\u00e9"]
    for c in range(32, 127):
        hosts.append("a" + chr(c) + "b")
        hosts.append("::1%z" + chr(c))
    for h in hosts:
        for validate in (False, True):
            if not out.mine():
                continue
            got = _outcome(_encode_host.__wrapped__, h, validate)
            want = _outcome(spec_url.encode_host, h, validate)
            out.note(got[0] == "ok" and got[1] != h, {"host": h, "validate": validate, "encoded": got[1] if got[0] == "ok" else got})
            if got != want:
                out.fail("_encode_host != specification", {"host": h, "validate_host": validate}, got, want)

def check_build(tier, out):
    """URL.build over authority / host / port / path alternatives: the result is usable (str, hash,
    accessors raise nothing but ValueError/TypeError at construction) and is a fixed point (C03, C19)"""
    from yarl import URL
    auths = ("", "h", "h:1", "user@h", "user:pw@h:8080", "user@", ":8080", "user:secret@:8080", "[::1]", "[::1]:1", "@", ":")
    for scheme in ("", "http", "x"):
        for a in auths:
            for path in ("", "/p", "p", "/a/../b", "."):
                for kw in ({"authority": a}, {"host": a.rpartition("@")[2].partition(":")[0]} if a and "[" not in a else None):
                    if kw is None:
                        continue
                    if not out.mine():
                        continue
                    for port in ((None,) if path not in ("", "/p") else (None, 0, 80, 8080, 65535)):
                        args = dict(scheme=scheme, path=path, **kw)
                        if port is not None:
                            if "authority" in kw:
                                continue
                            args["port"] = port
                        _build_case(URL, args, out)
    return


def _build_case(URL, args, out):
    from yarl._url import DEFAULT_PORTS
    scheme = args["scheme"]
    inp = {"build": args}
    try:
        u = URL.build(**args)
    except (ValueError, TypeError):
        return
    except Exception as e:  # noqa: BLE001
        out.fail("build raised something other than ValueError/TypeError (C19)", inp, f"{type(e).__name__}: {e}", "ValueError/TypeError")
        return
    out.note(True, {"build": args, "str": None})
    try:
        str(u), hash(u), u == u, u.raw_host, u.port, u.raw_path, u.query_string, bool(u), repr(u), u.human_repr()
    except Exception as e:  # noqa: BLE001
        out.fail("an object returned by build() is unusable (C19)", inp, f"{type(e).__name__}: {e}", "usable URL")
        return
    if not (u.scheme in ("http", "https", "ws", "wss", "ftp") and not u.raw_host):
        # (a special scheme without a host is not valid input for the parser; build() does not
        # check it -- outside C03's "valid input")
        _fixed(u, inp, out, "built")
    if u.raw_host is not None and any(seg in (".", "..") for seg in u.raw_path.split("/")):
        out.fail("a built URL with an authority keeps a dot segment (C15)", inp, u.raw_path, "no dot segment")
    port = args.get("port")
    if port is not None and u.raw_host:
        want = None if port == DEFAULT_PORTS.get(scheme) else port
        if u.explicit_port != want or (want is not None and f":{want}" not in str(u)):
            out.fail("build(port=p): the explicit port is not p (C17)", inp, (u.explicit_port, str(u)), want)


# =============================================================== C10 / C08: coherence across construction routes

_SLOTS = ("_scheme", "_netloc", "_path", "_query", "_fragment")


def _cold(u):
    """a URL with the same five stored parts and an empty memo: every accessor computes lazily"""
    c = object.__new__(type(u))
    for sl in _SLOTS:
        setattr(c, sl, getattr(u, sl))
    c._cache = {}
    return c


def _same_value(a, b):
    if type(a) is not type(b):
        return False
    if type(a).__name__ == "URL":
        return all(getattr(a, sl) == getattr(b, sl) for sl in _SLOTS)
    try:
        return a == b and repr(a) == repr(b)
    except Exception:  # noqa: BLE001
        return False


def _memo_coherent(u, inp, out, when):
    """every entry of the per-object memo equals what the accessor computes from the stored parts"""
    c = _cold(u)
    for k, v in list(u._cache.items()):
        try:
            want = hash(c) if k == "hash" else getattr(c, k)
        except AttributeError:
            continue        # a private entry that no accessor reads back: not observable through the API
        except Exception as e:  # noqa: BLE001
            out.fail(f"memo entry present where the accessor raises ({when})", inp, (k, v), f"{type(e).__name__}")
            continue
        if not _same_value(v, want):
            cls = None
            if k in ("raw_host", "host") and u._netloc == "" and v == "" and want is None:
                cls = "C09-vanishing-authority"
            out.fail(f"memo entry {k!r} differs from the lazily computed value ({when})", dict(inp, key=k), v, want, cls)


def _observe(u):
    for nm in ("scheme", "raw_authority", "authority", "raw_user", "user", "raw_password", "password", "raw_host", "host",
               "host_subcomponent", "host_port_subcomponent", "port", "explicit_port", "raw_path", "path", "path_safe",
               "raw_query_string", "query_string", "path_qs", "raw_path_qs", "raw_fragment", "fragment", "raw_parts", "parts",
               "parent", "raw_name", "name", "raw_suffix", "suffix", "raw_suffixes", "suffixes", "query", "absolute"):
        try:
            getattr(u, nm)
        except (ValueError, TypeError):
            pass
    try:
        u.origin()
    except ValueError:
        pass
    hash(u), str(u), repr(u), u.human_repr(), u.is_default_port(), u.is_absolute(), u < u, u == u
    pickle.dumps(u)


def _norm5(u):
    p = u._path
    if not p and u._netloc:
        p = "/"
    return (u._scheme, u._netloc, p, u._query, u._fragment)


def coherence_strings():
    for scheme in ("http", "https", "", "x"):
        for auth in (None, "h", "h:80", "h:443", "h:8080", "u@h", "H"):
            for path in ("", "/", "/a", "/A", "/a/", "/a/b"):
                for q in ("", "?a=1", "?a=0"):
                    for f in ("", "#f"):
                        if auth is None:
                            if scheme in ("http", "https"):
                                continue
                            yield (scheme + ":" if scheme else "") + path + q + f, (scheme, "", path, q[1:], f[1:])
                        else:
                            yield (scheme + ":" if scheme else "") + "//" + auth + path + q + f, (scheme, auth, path, q[1:], f[1:])


def _routes(URL, s, parts):
    """the same text through every construction route (those that reject it are left out)"""
    scheme, auth, path, q, f = parts
    res = []

    def add(name, fn):
        try:
            res.append((name, fn()))
        except (ValueError, TypeError):
            pass
    add("URL(s)", lambda: URL(s))
    add("URL(s, encoded=True)", lambda: URL(s, encoded=True))
    add("pickle round trip of URL(s)", lambda: pickle.loads(pickle.dumps(URL(s))))
    add("URL.build(authority=...)", lambda: URL.build(scheme=scheme, authority=auth, path=path, query_string=q, fragment=f))
    add("URL.build(..., encoded=True)", lambda: URL.build(scheme=scheme, authority=auth, path=path, query_string=q, fragment=f, encoded=True))
    add("URL(s).with_fragment(same)", lambda: URL(s).with_fragment(f or None))
    add("URL(s).with_query(same)", lambda: URL(s).with_query(q or None))
    add("URL(s).with_path(same, keep_query=True, keep_fragment=True)", lambda: URL(s).with_path(path, keep_query=True, keep_fragment=True))
    return res


def check_coherence(tier, out):
    """C10: == is equality of the five parts with '' == '/' under an authority, equal URLs hash alike,
    exactly one of <, ==, > holds and <=, >= agree with them -- for URLs that reach the same or nearly
    the same value through different construction routes.  C08: every memo entry a construction route
    or a modifier leaves behind (on a cold and on a fully observed source) equals the lazily computed
    value, and observation changes no stored part."""
    from yarl import URL
    corpus = list(coherence_strings())
    right = {}       # scheme -> [(text, object)] the right-hand operands (two routes per string)
    for s, parts in corpus:
        for name, fn in (("URL(s)", lambda: URL(s)), ("URL(s, encoded=True)", lambda: URL(s, encoded=True))):
            try:
                right.setdefault(parts[0], []).append((f"{name} s={s!r}", fn()))
            except (ValueError, TypeError):
                pass
    everything = [x for v in right.values() for x in v]
    mods = (("with_fragment('x')", lambda u: u.with_fragment("x")), ("with_fragment(None)", lambda u: u.with_fragment(None)),
            ("with_query('k=v')", lambda u: u.with_query("k=v")), ("with_path('/p')", lambda u: u.with_path("/p")),
            ("with_scheme('https')", lambda u: u.with_scheme("https")), ("with_host('g')", lambda u: u.with_host("g")),
            ("with_port(81)", lambda u: u.with_port(81)), ("with_user('w')", lambda u: u.with_user("w")),
            ("/ 'file'", lambda u: u / "file"), ("joinpath('d', 'file')", lambda u: u.joinpath("d", "file")),
            ("with_name('n')", lambda u: u.with_name("n")), ("with_suffix('.s')", lambda u: u.with_suffix(".s")),
            ("parent", lambda u: u.parent), ("origin()", lambda u: u.origin()), ("relative()", lambda u: u.relative()),
            ("join(URL('r?x#y'))", lambda u: u.join(URL("r?x#y"))), ("extend_query('e=1')", lambda u: u.extend_query("e=1")),
            ("update_query('a=2')", lambda u: u.update_query("a=2")))
    for idx, (s, parts) in enumerate(corpus):
        if not out.mine():
            continue
        objs = _routes(URL, s, parts)
        out.note(len({_norm5(o) for _, o in objs}) > 1, {"url": s, "routes": len(objs)})
        for name, o in objs:
            inp = {"url": s, "route": name}
            _memo_coherent(o, inp, out, "as constructed")
        # modifiers on a cold and on a fully observed source
        for name, o in objs[:3]:
            for warm in (False, True):
                src = _cold(o)
                before = _norm5(src), tuple(getattr(src, sl) for sl in _SLOTS)
                if warm:
                    _observe(src)
                    _memo_coherent(src, {"url": s, "route": name}, out, "after reading every accessor")
                    if (_norm5(src), tuple(getattr(src, sl) for sl in _SLOTS)) != before:
                        out.fail("observation changed a stored part", {"url": s, "route": name}, _norm5(src), before[0])
                for mn, fn in mods:
                    try:
                        w = fn(src)
                    except (ValueError, TypeError):
                        continue
                    inp = {"url": s, "route": name, "source": "observed" if warm else "cold", "modifier": mn}
                    _memo_coherent(w, inp, out, "result of a modifier")
                    _observe(w)
                    _memo_coherent(w, inp, out, "result of a modifier, after reading every accessor")
        # comparisons: against every right-hand operand of the same scheme and a stride of the others
        rs = right.get(parts[0], []) + everything[idx % 5::5]
        for name, a in objs:
            na = _norm5(a)
            if a == s or a == na or a != a or not (a == a):
                out.fail("== against a non-URL holds, or == is not reflexive", {"url": s, "route": name}, None, "False / True")
            for rname, b in rs:
                eq_want = na == _norm5(b)
                eq, ne, lt, gt, le, ge = a == b, a != b, a < b, a > b, a <= b, a >= b
                inp = {"a": f"{name} s={s!r}", "b": rname}
                if eq != eq_want or ne == eq or (b == a) != eq:
                    out.fail("== is not equality of (scheme, authority, path with ''=='/' under an authority, query, fragment)", inp, eq, eq_want)
                elif eq and hash(a) != hash(b):
                    out.fail("equal URLs with different hashes", inp, (hash(a), hash(b)), "equal hashes")
                elif (lt, eq, gt).count(True) != 1:
                    out.fail("not exactly one of a < b, a == b, a > b", inp, {"<": lt, "==": eq, ">": gt}, "exactly one")
                elif le != (lt or eq) or ge != (gt or eq) or (b > a) != lt or (b < a) != gt:
                    out.fail("<= / >= / mirrored operators disagree with <, ==, >", inp, {"<=": le, ">=": ge, "b>a": b > a, "b<a": b < a}, {"<": lt, "==": eq, ">": gt})
        if out.full:
            return


CHECKS = {"modifiers": check_modifiers, "conformance_parse": check_conformance_parse, "conformance_path": check_conformance_path,
          "conformance_host": check_conformance_host, "build": check_build, "query_algebra": check_query_algebra, "join": check_join, "path_algebra": check_path_algebra, "decode": check_decode, "human_repr": check_human_repr,
          "fixed_point": check_fixed_point, "coherence": check_coherence}


def main(argv):
    name, tier, k, n = argv[0], argv[1], int(argv[2]), int(argv[3])
    out = Out(k, n)
    CHECKS[name](tier, out)
    import yarl
    from yarl import _quoting
    json.dump({"cases": out.cases, "failures": out.failures, "nontrivial": out.nontrivial, "samples": out.samples,
               "impl": _quoting._Quoter.__module__, "package": os.path.dirname(yarl.__file__)},
              sys.stdout, ensure_ascii=True, default=repr)


if __name__ == "__main__":
    main(sys.argv[1:])
