"""Finite / DFA / static obligations per property (decided by exhaustive evaluation or a
decision procedure, reported with backend 'finite' / 'dfa' / 'static')."""

REGISTRY = {}     # property id -> list of callables (tier, seed) -> list[obligation record]


def register(*props):
    def deco(fn):
        for p in props:
            REGISTRY.setdefault(p, []).append(fn)
        return fn
    return deco


def run(prop, tier, seed):
    out = []
    for fn in REGISTRY.get(prop, []):
        out.extend(fn(tier, seed))
    return out
