"""Executable specifications of yarl/_query.py and the query operations (C12)."""
import math

from yarl._quoters import QUERY_PART_QUOTER, QUERY_QUOTER

from .spec_url import U


def query_var(v):
    """C12: str as it is; int and float rendered by str(); bool, None, bytes and anything else
    rejected with TypeError; NaN and infinities with ValueError"""
    if isinstance(v, bool):
        raise TypeError("bool is not a query value")
    if isinstance(v, str):
        return v
    if isinstance(v, float):
        if math.isinf(v) or math.isnan(v):
            raise ValueError("inf/nan is not supported")
        return str(float(v))
    if isinstance(v, int):
        return str(int(v))
    raise TypeError("Invalid variable type")


def get_str_query_single(query):
    """one positional argument that is None or a string: None stays None (clears / no-op), ''
    is '', other strings are canonicalised as a whole query string"""
    if query is None:
        return None
    if isinstance(query, dict):
        # a mapping: its items in order; a list / tuple value repeats the key
        if len(query) == 0:
            return ""
        return str_query_from_seq_pairs(list(query.items()))
    if isinstance(query, (list, tuple)):
        # a sequence of (key, value) pairs: serialised in order (single values only)
        if len(query) == 0:
            return ""
        return str_query_from_pairs(query)
    if not isinstance(query, str):
        raise TypeError("this specification covers None, str and sequences of pairs")
    if query == "":
        return ""
    return QUERY_QUOTER(query)


def with_query_str(u, query):
    """with_query(q) for q None or a string: the query is replaced, nothing else changes"""
    q = get_str_query_single(query)
    return U(u.scheme, u.netloc, u.path, q if q else "", u.fragment)


def extend_query_str(u, query):
    """extend_query(q) for q None or a string: q's pairs are appended after the existing ones
    ('&' between them unless the existing query already ends with one); None / '' is a no-op"""
    q = get_str_query_single(query)
    if not q:
        return u
    if u.query:
        if u.query[-1] == "&":
            return U(u.scheme, u.netloc, u.path, u.query + q, u.fragment)
        return U(u.scheme, u.netloc, u.path, u.query + "&" + q, u.fragment)
    return U(u.scheme, u.netloc, u.path, q, u.fragment)


def pair(k, v):
    """one key=value pair of a mapping / sequence argument"""
    return QUERY_PART_QUOTER(k) + "=" + QUERY_PART_QUOTER(v if isinstance(v, str) and type(v) is str else query_var(v))


def query_from_pairs2(k1, v1, k2, v2):
    """serialisation of a sequence of two pairs: in order, joined by '&'"""
    return pair(k1, v1) + "&" + pair(k2, v2)


def with_query_args(u, args):
    if len(args) != 1:
        raise ValueError("Either kwargs or single query parameter must be present")
    return with_query_str(u, args[0])


def extend_query_args(u, args):
    if len(args) != 1:
        raise ValueError("Either kwargs or single query parameter must be present")
    return extend_query_str(u, args[0])


# ---------------------------------------------------------------- serialisation of pairs (C12)

def _text(v):
    return v if isinstance(v, str) else query_var(v)


def str_query_from_pairs(items):
    """C12: the pairs in order, 'key=value' joined by '&'; key and value each quoted as a query part
    (so the pair delimiters inside them are escaped); ints by str()"""
    out = ""
    first = True
    for i in range(len(items)):
        k = items[i][0]
        v = items[i][1]
        piece = QUERY_PART_QUOTER(k) + "=" + QUERY_PART_QUOTER(_text(v))
        out = piece if first else out + "&" + piece
        first = False
    return out


def str_query_from_seq_pairs(items):
    """C12: like str_query_from_pairs, a list or tuple value repeats the key once per element"""
    out = ""
    first = True
    for i in range(len(items)):
        k = items[i][0]
        val = items[i][1]
        vals = val if (not isinstance(val, str) and isinstance(val, (list, tuple))) else (val,)
        for j in range(len(vals)):
            piece = QUERY_PART_QUOTER(k) + "=" + QUERY_PART_QUOTER(_text(vals[j]))
            out = piece if first else out + "&" + piece
            first = False
    return out


def update_query_trivial(u, args):
    """C12, the forms of update_query that need no multi-dict: None clears the query, an empty
    argument leaves everything as it is, bytes-like and other non-query values are TypeErrors"""
    if len(args) != 1:
        raise ValueError("Either kwargs or single query parameter must be present")
    q = args[0]
    if q is None:
        return U(u.scheme, u.netloc, u.path, "", u.fragment)
    if isinstance(q, (bytes, bytearray, memoryview)):
        raise TypeError("Invalid query type: bytes, bytearray and memoryview are forbidden")
    if isinstance(q, (str, dict, list, tuple)) and len(q) == 0:
        return U(u.scheme, u.netloc, u.path, u.query, u.fragment)
    raise TypeError("Invalid query type")
