"""Executable specifications of yarl/_path.py: RFC 3986 section 5.2.4 remove_dot_segments in
its segment form (the path is split at '/'; a stack of output segments)."""
from yarl._path import normalize_path_segments as nps

from .prims import segs_no_dots, segs_no_dots_upto, segs_prefix_equal, segs_step


def normalize_path_segments(segments):
    """5.2.4 over segments: '.' is dropped, '..' removes the last output segment if there is
    one (never above the root), anything else is appended; a final dot segment leaves a
    trailing empty segment (the trailing slash)"""
    out = []
    for seg in segments:
        if seg == "..":
            if out:
                out.pop()
        elif seg != ".":
            out.append(seg)
    if segments and segments[-1] in (".", ".."):
        out.append("")
    return out


def remove_dot_segments(path):
    """RFC 3986 5.2.4, the literal string algorithm (used for the spec-vs-spec lemma and replays)"""
    out = []
    inp = path
    while inp:
        if inp.startswith("../"):
            inp = inp[3:]
        elif inp.startswith("./"):
            inp = inp[2:]
        elif inp.startswith("/./"):
            inp = inp[2:]
        elif inp == "/.":
            inp = "/"
        elif inp.startswith("/../"):
            inp = inp[3:]
            if out:
                out.pop()
        elif inp == "/..":
            inp = "/"
            if out:
                out.pop()
        elif inp in (".", ".."):
            inp = ""
        else:
            i = inp.find("/", 1)
            if i < 0:
                i = len(inp)
            out.append(inp[:i])
            inp = inp[i:]
    return "".join(out)


def normalize_path(path):
    """the root of a rooted path is kept, the rest is split at '/', reduced and joined again"""
    prefix = ""
    if path[:1] == "/":
        prefix = "/"
        path = path[1:]
    return prefix + "/".join(nps(path.split("/")))
