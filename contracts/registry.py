"""Sidecar contracts: which real function is checked against which specification."""
from pyvc.verify import Contract, Cut, Lemma, STR, INT, BOOL, OPT, URLT, UNION, CONST

from . import hooks, spec_parse, spec_url

CONTRACTS = {}


def add(c):
    CONTRACTS[c.qual] = c
    return c


add(Contract(
    "yarl._parse:split_netloc", [("netloc", STR)], spec=spec_parse.split_netloc,
    raises=(ValueError,), props=("C07", "C17", "C19"),
    opaque=True, shape=(OPT(STR), OPT(STR), OPT(STR), OPT(INT)), ensures=spec_parse.split_netloc_ensures,
    on_apply=hooks.split_netloc_roundtrip,
    note="C07: split at last '@', first ':' of userinfo, ':' after host or ']'; C17: port *DIGIT 0..65535"))

add(Contract(
    "yarl._parse:_check_netloc", [("netloc", STR)], spec=spec_parse.check_netloc_nfkc,
    raises=(ValueError,), props=("C16", "C19")))

add(Contract(
    "yarl._parse:split_url", [("url", STR)], spec=spec_parse.split_url,
    raises=(ValueError,), props=("C07", "C19"), opaque=True, shape=(STR, STR, STR, STR, STR),
    loops={1: "all_chars_in(__seq[:__k], SCHEME_TAIL)"},
    cuts=[
        Cut("scheme = netloc = query = fragment = ''", "cleaned", ["url == S.c"]),
        Cut("has_hash = '#' in url", "scheme",
            ["url == S.rest", "scheme == S.scheme", "netloc == ''", "query == ''", "fragment == ''"]),
        Cut("if has_hash:", "authority",
            ["url == S.rest", "scheme == S.scheme", "netloc == S.netloc", "query == ''", "fragment == ''",
             "has_hash == ('#' in S.rest)", "has_question_mark == ('?' in S.rest)"],
            types={"has_hash": "bool", "has_question_mark": "bool"}),
    ],
    note="RFC 3986 Appendix B on the cleaned input"))

add(Contract(
    "yarl._parse:unsplit_result",
    [("scheme", STR), ("netloc", STR), ("url", STR), ("query", STR), ("fragment", STR)],
    spec=spec_parse.unsplit_result, requires=spec_parse.unsplit_requires, props=("C07", "C03"),
    opaque=True, shape=STR,
    note="precondition from the call sites: a path under an authority is empty or rooted"))

add(Contract(
    "yarl._parse:make_netloc",
    [("user", OPT(STR)), ("password", OPT(STR)), ("host", OPT(STR)), ("port", OPT(INT)), ("encode", BOOL)],
    spec=spec_parse.make_netloc, requires=spec_parse.make_netloc_requires,
    props=("C07", "C17", "C11", "C03", "C19"), opaque=True, shape=STR,
    note="RFC 3986 3.2 assembly of the authority"))

# ---------------------------------------------------------------- yarl/_url.py: ports (C17)
for _name in ("explicit_port", "port", "is_default_port"):
    add(Contract(f"yarl._url:URL.{_name}", [("self", URLT)], spec=getattr(spec_url, _name),
                 requires=spec_url.netloc_ok, props=("C17", "C19")))

for _name in ("scheme", "raw_authority", "raw_user", "raw_password", "raw_host", "raw_path",
              "raw_query_string", "raw_fragment", "absolute", "host_subcomponent"):
    add(Contract(f"yarl._url:URL.{_name}", [("self", URLT)], spec=getattr(spec_url, _name),
                 requires=spec_url.netloc_ok, props=("C07", "C09", "C19")))
add(Contract("yarl._url:URL.host_port_subcomponent", [("self", URLT)], spec=spec_url.host_port_subcomponent,
             requires=spec_url.netloc_ok, props=("C17", "C16", "C19")))
add(Contract("yarl._url:URL.__str__", [("self", URLT)], spec=spec_url.str_,
             requires=spec_url.str_requires, props=("C17", "C07", "C03", "C19")))

# ---------------------------------------------------------------- modifiers (C11, C17, C19)
_OTHER = CONST(1.5, b"x")
add(Contract("yarl._url:URL.with_port", [("self", URLT), ("port", UNION(OPT(INT), BOOL, CONST("80", 80.0)))],
             spec=spec_url.with_port, requires=spec_url.netloc_ok, raises=(TypeError, ValueError),
             props=("C17", "C11", "C19")))
add(Contract("yarl._url:URL.with_scheme", [("self", URLT), ("scheme", UNION(STR, CONST(None, 1)))],
             spec=spec_url.with_scheme, raises=(TypeError, ValueError), props=("C11", "C19")))
add(Contract("yarl._url:URL.with_user", [("self", URLT), ("user", UNION(OPT(STR), CONST(1, b"u")))],
             spec=spec_url.with_user, requires=spec_url.netloc_ok, raises=(TypeError, ValueError),
             props=("C11", "C19")))
add(Contract("yarl._url:URL.with_password", [("self", URLT), ("password", UNION(OPT(STR), CONST(1, b"p")))],
             spec=spec_url.with_password, requires=spec_url.netloc_ok, raises=(TypeError, ValueError),
             props=("C11", "C19")))
add(Contract("yarl._url:URL.relative", [("self", URLT)], spec=spec_url.relative, raises=(ValueError,),
             props=("C11", "C19")))
add(Contract("yarl._url:URL._origin", [("self", URLT)], spec=spec_url.origin, requires=spec_url.origin_requires,
             raises=(ValueError,), props=("C11", "C19")))

# ---------------------------------------------------------------- C10
_NONURL = CONST(1, "http://a", None)
for _m, _s in (("__eq__", spec_url.eq), ("__lt__", spec_url.lt), ("__le__", spec_url.le),
               ("__gt__", spec_url.gt), ("__ge__", spec_url.ge)):
    add(Contract(f"yarl._url:URL.{_m}", [("self", URLT), ("other", UNION(URLT, _NONURL))], spec=_s, props=("C10", "C19")))
add(Contract("yarl._url:URL.__hash__", [("self", URLT)], spec=spec_url.hash_, props=("C10", "C08")))
add(Contract("yarl._url:URL._cmp_val", [("self", URLT)], spec=spec_url.cmp_key, props=("C10",)))

add(Lemma(spec_url.lemma_order_coherent, [("a", URLT), ("b", URLT)], props=("C10",),
          note="trichotomy, <= / >= consistency, eq => equal hash, symmetry"))
add(Lemma(spec_url.lemma_eq_transitive, [("a", URLT), ("b", URLT), ("c", URLT)], props=("C10",)))
add(Lemma(spec_url.lemma_eq_reflexive, [("a", URLT)], props=("C10",)))

add(Contract("yarl._url:URL.with_fragment", [("self", URLT), ("fragment", UNION(OPT(STR), CONST(1, b"f")))],
             spec=spec_url.with_fragment, raises=(TypeError,), props=("C11", "C19", "C10", "C08", "C09")))

# ---------------------------------------------------------------- constructors
add(Contract("yarl._url:_encode_host", [("host", STR), ("validate_host", BOOL)], spec=spec_url.encode_host,
             raises=(ValueError,), opaque=True, shape=STR, ensures=spec_url.encode_host_ensures, assumed=True,
             props=(), note="assumed until C16's proof; conformance-tested"))
add(Contract("yarl._path:normalize_path", [("path", STR)], spec=spec_url.normalize_path,
             opaque=True, shape=STR, assumed=True, props=()))
add(Contract("yarl._url:encode_url", [("url_str", STR)], spec=spec_url.encode_url, raises=(ValueError,),
             transparent=("yarl._parse:make_netloc",),
             props=("WIP",)))
add(Contract("yarl._url:pre_encoded_url", [("url_str", STR)], spec=spec_url.pre_encoded_url, raises=(ValueError,),
             props=("C07", "C19", "C09")))

add(Lemma(spec_parse.lemma_netloc_roundtrip,
          [("user", OPT(STR)), ("password", OPT(STR)), ("host", STR), ("port", OPT(INT))],
          requires=spec_parse.netloc_parts_ok, props=("C09", "C11", "C03"),
          transparent=("yarl._parse:make_netloc", "yarl._parse:split_netloc"),
          note="split_netloc(make_netloc(parts)) == parts for canonical parts"))

add(Contract("yarl._url:URL._cache_netloc", [("self", URLT)], spec=spec_url.cache_netloc, requires=spec_url.netloc_ok,
             props=("C08", "C09")))
