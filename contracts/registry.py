"""Sidecar contracts: which real function is checked against which specification."""
from pyvc.verify import Contract, Cut, Lemma, STR, INT, BOOL, OPT, URLT, UNION, CONST, BYTES

from . import hooks, spec_parse, spec_path, spec_query, spec_url

CONTRACTS = {}


def add(c):
    CONTRACTS[c.qual] = c
    return c


add(Contract(
    "yarl._parse:split_netloc", [("netloc", STR)], spec=spec_parse.split_netloc,
    raises=(ValueError,), props=("C07", "C17", "C19"),
    opaque=True, shape=(OPT(STR), OPT(STR), OPT(STR), OPT(INT)), ensures=spec_parse.split_netloc_ensures,
    on_apply=hooks.split_netloc_roundtrip,
    note="C07: split at last '@', first ':' of userinfo, ':' after host or ']'; C17: port *DIGIT 0..65535"))

add(Contract(
    "yarl._parse:_check_netloc", [("netloc", STR)], spec=spec_parse.check_netloc_nfkc,
    raises=(ValueError,), props=("C16", "C19")))

add(Contract(
    "yarl._parse:split_url", [("url", STR)], spec=spec_parse.split_url,
    raises=(ValueError,), props=("C07", "C19"), opaque=True, shape=(STR, STR, STR, STR, STR),
    loops={1: "all_chars_in(__seq[:__k], SCHEME_TAIL)"},
    cuts=[
        Cut("scheme = netloc = query = fragment = ''", "cleaned", ["url == S.c"]),
        Cut("has_hash = '#' in url", "scheme",
            ["url == S.rest", "scheme == S.scheme", "netloc == ''", "query == ''", "fragment == ''"]),
        Cut("if has_hash:", "authority",
            ["url == S.rest", "scheme == S.scheme", "netloc == S.netloc", "query == ''", "fragment == ''",
             "has_hash == ('#' in S.rest)", "has_question_mark == ('?' in S.rest)"],
            types={"has_hash": "bool", "has_question_mark": "bool"}),
    ],
    note="RFC 3986 Appendix B on the cleaned input"))

add(Contract(
    "yarl._parse:unsplit_result",
    [("scheme", STR), ("netloc", STR), ("url", STR), ("query", STR), ("fragment", STR)],
    spec=spec_parse.unsplit_result, requires=spec_parse.unsplit_requires, props=("C07", "C03"),
    opaque=True, shape=STR,
    note="precondition from the call sites: a path under an authority is empty or rooted"))

add(Contract(
    "yarl._parse:make_netloc",
    [("user", OPT(STR)), ("password", OPT(STR)), ("host", OPT(STR)), ("port", OPT(INT)), ("encode", BOOL)],
    spec=spec_parse.make_netloc, requires=spec_parse.make_netloc_requires,
    props=("C07", "C17", "C11", "C03", "C19", "C09", "C01", "C04"), opaque=True, shape=STR,
    note="RFC 3986 3.2 assembly of the authority; with encode the user and the password each go through the userinfo quoter"))

# ---------------------------------------------------------------- yarl/_url.py: ports (C17)
for _name in ("explicit_port", "port", "is_default_port"):
    add(Contract(f"yarl._url:URL.{_name}", [("self", URLT)], spec=getattr(spec_url, _name),
                 requires=spec_url.netloc_ok, props=("C17", "C19")))

for _name in ("scheme", "raw_authority", "raw_user", "raw_password", "raw_host", "raw_path",
              "raw_query_string", "raw_fragment", "absolute", "host_subcomponent"):
    add(Contract(f"yarl._url:URL.{_name}", [("self", URLT)], spec=getattr(spec_url, _name),
                 requires=spec_url.netloc_ok if _name in ("raw_user", "raw_password", "raw_host", "host_subcomponent") else None,
                 props=("C07", "C09", "C19") + (("C16",) if "host" in _name else ())))
add(Contract("yarl._url:URL.host_port_subcomponent", [("self", URLT)], spec=spec_url.host_port_subcomponent,
             requires=spec_url.netloc_ok, props=("C17", "C16", "C19")))
add(Contract("yarl._url:URL.__str__", [("self", URLT)], spec=spec_url.str_,
             requires=spec_url.str_requires, props=("C17", "C07", "C03", "C19", "C16")))

# ---------------------------------------------------------------- modifiers (C11, C17, C19)
_OTHER = CONST(1.5, b"x")
add(Contract("yarl._url:URL.with_port", [("self", URLT), ("port", UNION(OPT(INT), BOOL, CONST("80", 80.0)))],
             spec=spec_url.with_port, requires=spec_url.netloc_ok, raises=(TypeError, ValueError),
             props=("C17", "C11", "C19")))
add(Contract("yarl._url:URL.with_scheme", [("self", URLT), ("scheme", UNION(STR, CONST(None, 1)))],
             spec=spec_url.with_scheme, raises=(TypeError, ValueError), props=("C11", "C19")))
add(Contract("yarl._url:URL.with_user", [("self", URLT), ("user", UNION(OPT(STR), CONST(1, b"u")))],
             spec=spec_url.with_user, requires=spec_url.netloc_ok, raises=(TypeError, ValueError),
             props=("C11", "C19")))
add(Contract("yarl._url:URL.with_password", [("self", URLT), ("password", UNION(OPT(STR), CONST(1, b"p")))],
             spec=spec_url.with_password, requires=spec_url.netloc_ok, raises=(TypeError, ValueError),
             props=("C11", "C19")))
add(Contract("yarl._url:URL.relative", [("self", URLT)], spec=spec_url.relative, raises=(ValueError,),
             props=("C11", "C19")))
add(Contract("yarl._url:URL._origin", [("self", URLT)], spec=spec_url.origin, requires=spec_url.origin_requires,
             raises=(ValueError,), props=("C11", "C19")))

# ---------------------------------------------------------------- C10
_NONURL = CONST(1, "http://a", None)
for _m, _s in (("__eq__", spec_url.eq), ("__lt__", spec_url.lt), ("__le__", spec_url.le),
               ("__gt__", spec_url.gt), ("__ge__", spec_url.ge)):
    add(Contract(f"yarl._url:URL.{_m}", [("self", URLT), ("other", UNION(URLT, _NONURL))], spec=_s, props=("C10", "C19")))
add(Contract("yarl._url:URL.__hash__", [("self", URLT)], spec=spec_url.hash_, props=("C10", "C08")))
add(Contract("yarl._url:URL._cmp_val", [("self", URLT)], spec=spec_url.cmp_key, props=("C10",)))

add(Lemma(spec_url.lemma_order_coherent, [("a", URLT), ("b", URLT)], props=("C10",),
          note="trichotomy, <= / >= consistency, eq => equal hash, symmetry"))
add(Lemma(spec_url.lemma_eq_transitive, [("a", URLT), ("b", URLT), ("c", URLT)], props=("C10",)))
add(Lemma(spec_url.lemma_eq_reflexive, [("a", URLT)], props=("C10",)))

add(Contract("yarl._url:URL.with_fragment", [("self", URLT), ("fragment", UNION(OPT(STR), CONST(1, b"f")))],
             spec=spec_url.with_fragment, raises=(TypeError,), props=("C11", "C19", "C10", "C08", "C09")))

# ---------------------------------------------------------------- constructors
add(Contract("yarl._url:_idna_encode", [("host", STR)], spec=spec_url.idna_encode, raises=(UnicodeError,),
             opaque=True, shape=STR, ensures=spec_url.idna_encode_ensures, props=("C16",),
             note="both IDNA routes end in lower-case ASCII"))
add(Contract("yarl._url:_encode_host", [("host", STR), ("validate_host", BOOL)], spec=spec_url.encode_host,
             raises=(ValueError,), opaque=True, shape=STR, ensures=spec_url.encode_host_ensures,
             props=("C16", "C03", "C09"), note="canonical host: IP literal / ASCII lower case / IDNA; brackets; validation"))
add(Contract("yarl._path:normalize_path", [("path", STR)], spec=spec_path.normalize_path,
             opaque=True, shape=STR, congruent=True, props=("C15", "C14", "C19")))
add(Contract("yarl._url:encode_url", [("url_str", STR)], spec=spec_url.encode_url, raises=(ValueError,),
             transparent=("yarl._parse:make_netloc",), shards=16, tier="thorough", opaque=True, shape="URL",
             memo_skip=("raw_host", "raw_user", "raw_password", "explicit_port"),
             props=("C03", "C07", "C15", "C16", "C19", "C08", "C10"),
             note="thorough tier only (minutes on 16 cores): the five stored parts refine the specification; the eager "
                  "authority entries of the memo (raw_host, raw_user, raw_password, explicit_port) are not attempted here"))
add(Contract("yarl._url:pre_encoded_url", [("url_str", STR)], spec=spec_url.pre_encoded_url, raises=(ValueError,),
             props=("C07", "C19", "C09")))

add(Lemma(spec_parse.lemma_netloc_roundtrip,
          [("user", OPT(STR)), ("password", OPT(STR)), ("host", STR), ("port", OPT(INT))],
          requires=spec_parse.netloc_parts_ok, props=("C09", "C11", "C03"),
          transparent=("yarl._parse:make_netloc", "yarl._parse:split_netloc"),
          note="split_netloc(make_netloc(parts)) == parts for canonical parts"))

add(Contract("yarl._url:URL._cache_netloc", [("self", URLT)], spec=spec_url.cache_netloc, requires=spec_url.netloc_ok,
             call_inline=True, props=("C08", "C09")))

add(Contract("yarl._url:URL.build",
             [("cls", CONST(None)), ("scheme", STR), ("authority", STR), ("user", OPT(STR)), ("password", OPT(STR)),
              ("host", STR), ("port", UNION(OPT(INT), BOOL, CONST("80"))), ("path", STR), ("query", CONST(None)),
              ("query_string", STR), ("fragment", STR), ("encoded", BOOL)],
             spec=spec_url.build, raises=(TypeError, ValueError), shards=16, tier="thorough",
             memo_skip=("raw_host", "raw_user", "raw_password", "explicit_port"), props=("WIP2",)))

# ---------------------------------------------------------------- the quoters (C01, C02, C04, C05)
import ast as _ast
import os as _os

from . import spec_quote
import yarl._quoting_py as _qpy


def _quoter_configs():
    """the quoter configurations, read from the real yarl/_quoters.py source"""
    src = open(_os.path.join(_os.environ.get("PYVC_REPO", "/repo"), "yarl", "_quoters.py")).read()
    out = {}
    for node in _ast.parse(src).body:
        if isinstance(node, _ast.Assign) and isinstance(node.value, _ast.Call) and \
                getattr(node.value.func, "id", None) == "_Quoter" and len(node.targets) == 1:
            out[node.targets[0].id] = {k.arg: _ast.literal_eval(k.value) for k in node.value.keywords}
    return out


PY_QUOTERS = {}
for _name, _kw in _quoter_configs().items():
    if _name in spec_quote.QUOTERS:
        _inst = _qpy._Quoter(**_kw)
        PY_QUOTERS[_name] = _inst
        spec_quote.INSTANCE_NAME[id(_inst)] = _name
        spec_quote.INSTANCE_OBJ[id(_inst)] = _inst


def _quoter_stream_result(ex, st, stream):
    """reading the output buffer after the loop: by the simulation rule its content is the
    concatenation of the specification's units for all tokens of the input; what callers use is
    the unit-alphabet lemma (contracts.spec_quote.lemma_unit_alphabet)"""
    from pyvc import values as V
    import z3
    q = st.env["self"].obj
    name = spec_quote.INSTANCE_NAME[id(q)]
    codes = [ord(c) for c in spec_quote.out_alphabet(name)]
    r = V.fresh_str(st.ctx, "quoted")
    A, lo, hi = r.a, r.lo, r.hi
    st.ctx.addq("alphabet", A, lambda k: z3.Implies(z3.And(lo <= k, k < hi), V.in_set(A[k], codes)))
    ex.lemmas_used.add("contracts.spec_quote:lemma_unit_alphabet")
    return r


_PYQ_LOOP = {
    "inv": ("0 <= idx and idx <= len(bval) and 0 <= G_p and G_p <= len(bval) and len(pct) <= 2 "
            "and (not (idx < len(bval) or len(pct) == 0) or G_p == idx - len(pct)) "
            "and (not (idx == len(bval) and len(pct) >= 1) or (len(pct) == 1 and G_p == len(bval))) "
            "and (len(pct) == 0 or (self._requote and pct[0] == 37 and idx >= len(pct) and bval[idx - len(pct)] == 37)) "
            "and (len(pct) < 2 or pct[1] == upper_byte(bval[idx - 1]))"),
    "lists": {"pct": (0, 2)},
    "streams": ["ret"],
    "ghost": {"p": "0"},
    "step": "q_step(self, bval, G_p)",
    "exit": "G_p == len(bval)",
    "stream_result": _quoter_stream_result,
}
add(Contract("yarl._quoting_py:_Quoter.__call__",
             [("self", CONST(*PY_QUOTERS.values())), ("val", UNION(OPT(STR), CONST(1, b"x")))],
             spec=None, native_spec=spec_quote.q_spec, spec_module=spec_quote,
             raises=(TypeError,), loops={0: _PYQ_LOOP}, props=("C01", "C02", "C04", "C05", "C19"),
             note="stream simulation against spec_quote.q_step, all nine configurations"))
for _name, _inst in PY_QUOTERS.items():
    pass
add(Lemma(spec_quote.lemma_unit_alphabet, [("quoter", CONST(*PY_QUOTERS.values())), ("B", BYTES), ("p", INT)],
          requires=spec_quote.lemma_requires, props=("C01",)))

# ---------------------------------------------------------------- the pure-Python unquoter (C06)
from . import spec_unquote
from pyvc import lib as _lib


def _unquoter_configs():
    """the unquoter configurations, read from the real yarl/_quoters.py source"""
    src = open(_os.path.join(_os.environ.get("PYVC_REPO", "/repo"), "yarl", "_quoters.py")).read()
    out = {}
    for node in _ast.parse(src).body:
        if isinstance(node, _ast.Assign) and isinstance(node.value, _ast.Call) and \
                getattr(node.value.func, "id", None) == "_Unquoter" and len(node.targets) == 1:
            out[node.targets[0].id] = {k.arg: _ast.literal_eval(k.value) for k in node.value.keywords}
    return out


PY_UNQUOTERS = {}
for _name, _kw in _unquoter_configs().items():
    _inst = _qpy._Unquoter(**_kw)
    PY_UNQUOTERS[_name] = _inst
    spec_unquote.INSTANCE_CFG[id(_inst)] = (_kw.get("ignore", ""), _kw.get("unsafe", ""), bool(_kw.get("qs", False)))
    spec_unquote.INSTANCE_NAME[id(_inst)] = _name
    _lib.EXTRA_PRIMS.append((_inst._quoter, "unquoter.inner_quoter", _lib.inner_requoter(False)))
    _lib.EXTRA_PRIMS.append((_inst._qs_quoter, "unquoter.inner_qs_quoter", _lib.inner_requoter(True)))


def _unquoter_stream_result(ex, st, stream):
    """reading the output list after the loop (''.join(ret)): every character of the input must
    have been accounted for by the simulation (ghost pointer at the end); the content is, by the
    simulation rule, the concatenation of the specification's units"""
    import z3
    from pyvc import values as V
    val = st.env["val"]
    ex.oblige(st, "output-read:simulation-complete(G_p == len(val))", "inv-exit", st.ghost["p"].t == val.len(), None, {})
    return V.fresh_str(st.ctx, "unquoted")


if PY_UNQUOTERS:
    add(Contract("yarl._quoting_py:_Unquoter.__call__",
                 [("self", CONST(*PY_UNQUOTERS.values())), ("val", UNION(OPT(STR), CONST(1, b"x")))],
                 spec=None, spec_module=spec_unquote, raises=(TypeError,),
                 loops={0: {"inv": ("0 <= idx and idx <= len(val) and G_p == idx - 3 * len(decoder.buffer) "
                                    "and pending_ok(val, G_p, decoder.buffer)"),
                            "lists": {"decoder.buffer": (0, 3)},
                            "streams": ["ret"], "str_stream": True, "multi_token": True,
                            "ghost": {"p": "0", "k": "0"},
                            "step": "u_step(self, val, G_p)",
                            "stream_result": _unquoter_stream_result}},
                 props=("C06", "C19"),
                 note="stream simulation of the pure-Python decoder against spec_unquote.u_step; the incremental "
                      "decoder's hidden buffer is ghost state of the loop invariant"))

# ---------------------------------------------------------------- the compiled quoter (yarl/_quoting_c.pyx)
from pyvc import pyxfront as _pyxfront
from pyvc import cmodel as _cmodel

try:
    _PYX_MOD, _PYX_TEXT, _PYX_TYPES = _pyxfront.load()
    C_QUOTERS = {}
    for _name, _kw in _quoter_configs().items():
        if _name in spec_quote.QUOTERS:
            _inst = _PYX_MOD._Quoter(**_kw)
            C_QUOTERS[_name] = _inst
            spec_quote.INSTANCE_NAME[id(_inst)] = _name
            spec_quote.INSTANCE_OBJ[id(_inst)] = _inst
    PYX_ERROR = None
except Exception as _e:      # the front end could not read the current .pyx: obligations undecided
    PYX_ERROR = f"{type(_e).__name__}: {_e}"
    C_QUOTERS = {}

if C_QUOTERS:
    add(Contract("yarl._quoting_c_pyx:bit_at", [], spec=None, abstract=_cmodel.bit_at_contract, assumed=False, props=()))
    add(Contract("yarl._quoting_c_pyx:_write_pct", [], spec=None, abstract=_cmodel.write_pct_contract, props=()))
    add(Contract("yarl._quoting_c_pyx:_write_utf8", [], spec=None, abstract=_cmodel.write_utf8_contract, props=()))
    WRITE_CHAR = Contract("yarl._quoting_c_pyx:_write_char",
                          [("writer", ("writer", "symbolic")), ("ch", INT), ("changed", BOOL)],
                          spec=None, spec_module=spec_quote, abstract=_cmodel.write_char_contract,
                          native_pre=hooks.writer_pre, native_post=hooks.write_char_post,
                          props=("C19", "C05"),
                          note="Writer invariant, in-bounds write, growth by malloc+memcpy / realloc, failure leaves the writer intact")
    add(WRITE_CHAR)
    _CQ_LOOP = {
        "inv": "0 <= idx and idx <= length and G_p == idx and G_k == 0 and (writer.changed != 0 or G_same)",
        "ghost": {"p": "0", "k": "0", "same": "True"},
        "step": "q_step_cp(self, val, G_p)",
        "exit": "G_p == length",
        "same": "unit_is_input(UNIT, val, G_p, CONSUMED)",
        "sync": "G_p == idx",
        "fields": {"writer": {"changed": "flag", "pos": "int"}},
        "writer": "writer",
        "stream_result": _quoter_stream_result,
    }
    add(Contract("yarl._quoting_c_pyx:_Quoter._do_quote",
                 [("self", CONST(*C_QUOTERS.values())), ("val", STR), ("length", INT), ("kind", INT),
                  ("data", ("pydata", "val")), ("writer", ("writer",))],
                 spec=None, native_spec=None, spec_module=spec_quote, requires=spec_quote.do_quote_requires,
                 raises=(MemoryError,), loops={0: _CQ_LOOP}, post="(result is not val) or G_same",
                 abstract=_cmodel.do_quote_contract,
                 props=("C05", "C01", "C02", "C04", "C19"),
                 note="stream simulation of the compiled quoter against spec_quote.q_step_cp"))
    add(Contract("yarl._quoting_c_pyx:_Quoter._do_quote_or_skip",
                 [("self", CONST(*C_QUOTERS.values())), ("val", STR)],
                 spec=None, spec_module=spec_quote, raises=(MemoryError,),
                 loops={0: {"inv": "0 <= idx and idx <= length and must_quote == 0 and skippable_from(self, val, idx)"}},
                 native_pre=hooks.skip_pre, native_post=hooks.skip_post,
                 abstract=_cmodel.inner_call_contract("quote_or_skip"),
                 props=("C05", "C01", "C04", "C19"),
                 note="fast path (nothing to quote) is sound; writer initialised before and released after _do_quote"))

# ---------------------------------------------------------------- the compiled unquoter (C06)
C_UNQUOTERS = {}
if C_QUOTERS:
    try:
        for _name, _kw in _unquoter_configs().items():
            _inst = _PYX_MOD._Unquoter(**_kw)
            C_UNQUOTERS[_name] = _inst
            spec_unquote.INSTANCE_CFG[id(_inst)] = (_kw.get("ignore", ""), _kw.get("unsafe", ""), bool(_kw.get("qs", False)))
            spec_unquote.INSTANCE_NAME[id(_inst)] = _name
            _lib.EXTRA_PRIMS.append((_inst._quoter, "unquoter.inner_quoter", _lib.inner_requoter(False)))
            _lib.EXTRA_PRIMS.append((_inst._qs_quoter, "unquoter.inner_qs_quoter", _lib.inner_requoter(True)))
    except Exception as _e:      # the front end could not build the unquoter instances: obligations undecided
        C_UNQUOTERS = {}


def _c_unquoter_stream_result(ex, st, stream):
    import z3
    from pyvc import values as V
    val = st.env["val"]
    ex.oblige(st, "output-read:simulation-complete(G_p == len(val))", "inv-exit", st.ghost["p"].t == val.len(), None, {})
    return V.fresh_str(st.ctx, "unquoted")


if C_UNQUOTERS:
    add(Contract("yarl._quoting_c_pyx:_Unquoter._do_unquote",
                 [("self", CONST(*C_UNQUOTERS.values())), ("val", STR)],
                 spec=None, spec_module=spec_unquote,
                 loops={0: {"inv": ("0 <= idx and idx <= length and length == len(val) and G_k == 0 "
                                    "and G_p == idx - 3 * buflen "
                                    "and pending_ok(val, G_p, buffer[:buflen]) "
                                    "and (changed != 0 or (G_same and buflen == 0))"),
                            "lists": {"buffer": (4, 4)}, "enums": {"buflen": (0, 3)},
                            "streams": ["ret"], "str_stream": True, "multi_token": True,
                            "ghost": {"p": "0", "k": "0", "same": "True"},
                            "step": "u_step(self, val, G_p)",
                            "same": "unit_is_input(UNIT, val, G_p, CONSUMED)",
                            "stream_result": _c_unquoter_stream_result}},
                 post="(result is not val) or len(val) == 0 or (G_same and G_p == len(val))",
                 abstract=_cmodel.inner_call_contract("do_unquote"),
                 props=("C06", "C05", "C19"),
                 note="stream simulation of the compiled decoder against spec_unquote.u_step; buffer[0:buflen] is the "
                      "held-back prefix; returning the argument itself only when nothing was changed"))

if C_QUOTERS:
    add(Contract("yarl._quoting_c_pyx:_Quoter.__call__",
                 [("self", CONST(*C_QUOTERS.values())), ("val", UNION(OPT(STR), CONST(1, b"x")))],
                 spec=spec_quote.c_call, raises=(TypeError,), props=("C05", "C01", "C19"),
                 note="type dispatch of the compiled quoter: None passed through, non-str rejected, str handed to _do_quote_or_skip"))
if C_UNQUOTERS:
    add(Contract("yarl._quoting_c_pyx:_Unquoter.__call__",
                 [("self", CONST(*C_UNQUOTERS.values())), ("val", UNION(OPT(STR), CONST(1, b"x")))],
                 spec=spec_quote.c_call, raises=(TypeError,), props=("C06", "C05", "C19"),
                 note="type dispatch of the compiled unquoter"))

_ALLQ = CONST(*PY_QUOTERS.values())
add(Lemma(spec_quote.lemma_canonical_is_fixed, [("quoter", _ALLQ), ("B", BYTES), ("p", INT)],
          requires=spec_quote.requoting, props=("C03", "C04"),
          note="a canonical unit is re-emitted unchanged by every re-quoting quoter"))
add(Lemma(spec_quote.lemma_no_new_slash, [("quoter", _ALLQ), ("B", BYTES), ("p", INT)],
          requires=spec_quote.slash_stable, props=("C13",),
          note="quoting never creates a path separator (used at the call sites of PATH_QUOTER in with_name / with_suffix)"))
add(Lemma(spec_quote.lemma_skippable_is_fixed, [("quoter", _ALLQ), ("B", BYTES), ("p", INT)],
          requires=spec_quote.in_range, props=("C01", "C04", "C05"),
          note="the compiled quoter's fast path: skippable characters are their own units"))
add(Lemma(spec_quote.lemma_value_preserved, [("quoter", _ALLQ), ("B", BYTES), ("p", INT)],
          requires=spec_quote.lemma_requires, props=("C02",),
          note="units decode to the consumed value; protected delimiters keep their literal/escaped status"))

add(Contract("yarl._url:URL.with_host", [("self", URLT), ("host", UNION(STR, CONST(None, 1)))],
             spec=spec_url.with_host, requires=spec_url.netloc_ok, raises=(TypeError, ValueError), props=("C11", "C16", "C19")))
add(Contract("yarl._url:URL.with_path",
             [("self", URLT), ("path", STR), ("encoded", BOOL), ("keep_query", BOOL), ("keep_fragment", BOOL)],
             spec=spec_url.with_path, props=("C11", "C15", "C19")))
add(Contract("yarl._url:URL.origin", [("self", URLT)], spec=spec_url.origin_, requires=spec_url.origin_requires,
             raises=(ValueError,), props=("C11", "C19")))
add(Contract("yarl._url:URL.is_absolute", [("self", URLT)], spec=spec_url.is_absolute, props=("C19",)))
add(Contract("yarl._url:URL.__bool__", [("self", URLT)], spec=spec_url.bool_, props=("C19",)))

add(Contract("yarl._url:URL.__getstate__", [("self", URLT)], spec=spec_url.getstate, props=("C09", "C19")))
add(Contract("yarl._url:URL.__setstate__", [("self", "fresh-url"), ("state", "pickle-state")], spec=None,
             spec_module=spec_url, native_pre=hooks.setstate_pre, native_post=hooks.setstate_post, props=("C09", "C19"),
             note="self is the fresh object URL.__new__(cls) returns for the UNDEFINED sentinel (unpickling protocol)"))

# ---------------------------------------------------------------- yarl/_path.py (C15)
add(Contract("yarl._path:normalize_path_segments", [("segments", "seglist")], spec=None, abstract=hooks.nps_abstract,
             native_spec=spec_path.normalize_path_segments, spec_module=spec_path,
             native_pre=hooks.nps_pre, native_post=hooks.nps_post,
             loops={0: {"roles": True,
                        "inv": ("segs_no_dots(__acc) and len(__acc) <= __k and "
                                "(not segs_no_dots_upto(segments, __k) or segs_prefix_equal(__acc, segments, __k))"),
                        "step_post": "segs_step(OLD___acc, __target, __acc)"}},
             props=("C15", "C14", "C19")))

add(Lemma(spec_quote.lemma_output_is_canonical,
          [("quoter", _ALLQ), ("B", BYTES), ("p", INT), ("C", BYTES), ("q", INT)],
          requires=spec_quote.lemma_out_requires, props=("C03",),
          note="units written by any quoter are canonical units for the component's re-quoter (with lemma_canonical_is_fixed: quoting is idempotent)"))

add(Lemma(spec_parse.lemma_split_unsplit,
          [("scheme", STR), ("netloc", STR), ("path", STR), ("query", STR), ("fragment", STR)],
          requires=spec_parse.parts_wellformed, props=("WIP3",),
          transparent=("yarl._parse:split_url", "yarl._parse:unsplit_result"),
          note="split_url(unsplit_result(parts)) == parts for well-formed parts"))

# ---------------------------------------------------------------- path algebra at the string level (C13)
for _name in ("raw_name", "raw_suffix", "parent"):
    add(Contract(f"yarl._url:URL.{_name}", [("self", URLT)], spec=getattr(spec_url, _name), split_model="plist",
                 props=("C13", "C19")))
add(Contract("yarl._url:URL._with_raw_name", [("self", URLT), ("name", STR), ("keep_query", BOOL), ("keep_fragment", BOOL)],
             spec=spec_url.with_raw_name, requires=spec_url.no_slash, raises=(ValueError,), split_model="plist",
             props=("C13", "C11", "C19")))
add(Contract("yarl._url:URL.with_name", [("self", URLT), ("name", UNION(STR, CONST(1))), ("keep_query", BOOL), ("keep_fragment", BOOL)],
             spec=spec_url.with_name, raises=(TypeError, ValueError), split_model="plist", props=("C13", "C11", "C19")))
add(Contract("yarl._url:URL.with_suffix", [("self", URLT), ("suffix", UNION(STR, CONST(1))), ("keep_query", BOOL), ("keep_fragment", BOOL)],
             spec=spec_url.with_suffix, raises=(TypeError, ValueError), split_model="plist", props=("C13", "C11", "C19")))

add(Contract("yarl._url:URL._make_child", [("self", URLT), ("paths", "strtuple"), ("encoded", BOOL)],
             spec=spec_url.make_child, requires=spec_url.make_child_requires, raises=(ValueError,), split_model="plist",
             opaque=True, shape="URL",
             props=("C13", "C11", "C19"),
             note="'/' and joinpath for 0, 1 and 2 texts of any content, outside the normalising branch"))

# ---------------------------------------------------------------- decoded accessors (C06)
for _name in ("user", "password", "path", "path_safe", "query_string", "fragment", "name", "suffix"):
    add(Contract(f"yarl._url:URL.{_name}", [("self", URLT)], spec=getattr(spec_url, _name),
                 requires=spec_url.netloc_ok if _name in ("user", "password") else None,
                 split_model="plist" if _name in ("name", "suffix") else None,
                 props=("C06", "C19"),
                 note="the decoded accessor is the component's decoder applied to the raw component (decoder itself: bounded, C06)"))

# ---------------------------------------------------------------- small constructors and accessors
add(Contract("yarl._url:build_pre_encoded_url",
             [("scheme", STR), ("authority", STR), ("user", OPT(STR)), ("password", OPT(STR)), ("host", STR), ("port", OPT(INT)),
              ("path", STR), ("query_string", STR), ("fragment", STR)],
             spec=spec_url.build_pre_encoded, requires=spec_url.bpe_requires, transparent=("yarl._parse:make_netloc",),
             props=("C17", "C09", "C19"),
             note="build(..., encoded=True): parts taken as they are, default port not stored"))
add(Contract("yarl._url:URL.authority", [("self", URLT)], spec=spec_url.decoded_authority, requires=spec_url.netloc_ok,
             props=("C06", "C19")))
for _name in ("raw_path_qs", "path_qs", "host"):
    add(Contract(f"yarl._url:URL.{_name}", [("self", URLT)], spec=getattr(spec_url, _name),
                 requires=spec_url.netloc_ok if _name == "host" else None,
                 props=("C06", "C19") + (("C16",) if _name == "host" else ()) + (("C07",) if _name == "raw_path_qs" else ())))

add(Contract("yarl._url:URL.__truediv__", [("self", URLT), ("name", UNION(STR, CONST(1, None)))],
             spec=spec_url.truediv, requires=spec_url.truediv_requires, raises=(ValueError,), props=("C13", "C19"),
             note="u / s is _make_child((s,)); a non-str operand gives NotImplemented"))
add(Contract("yarl._url:URL.joinpath", [("self", URLT), ("other", ("varargs", STR)), ("encoded", BOOL)],
             spec=spec_url.joinpath, requires=spec_url.joinpath_requires, raises=(ValueError,), props=("C13", "C19"),
             note="joinpath(*texts, encoded=) is _make_child(texts, encoded) -- so u / s == u.joinpath(s)"))
add(Lemma(spec_url.lemma_joinpath_two_steps, [("u", URLT), ("a", STR), ("b", STR), ("encoded", BOOL)],
          requires=spec_url.lemma_joinpath_requires, props=("C13",), transparent=("yarl._url:URL._make_child",),
          note="joinpath(a, b) == joinpath(a).joinpath(b), on the specification that _make_child refines"))

import yarl._url as _yurl
add(Contract("yarl._url:URL.__new__",
             [("cls", CONST(_yurl.URL)), ("val", UNION(STR, URLT, CONST(_yurl.UNDEFINED, 1, None, b"x"))), ("encoded", BOOL), ("strict", CONST(None))],
             spec=spec_url.new, raises=(TypeError, ValueError), props=("C19", "C07"),
             note="constructor dispatch; encode_url / pre_encoded_url through their own contracts; SplitResult and str-subclass arguments not covered"))

# ---------------------------------------------------------------- reference resolution (C14)
add(Contract("yarl._url:URL.join", [("self", URLT), ("url", UNION(URLT, CONST(None, "x")))], spec=spec_url.join,
             requires=spec_url.join_requires, raises=(TypeError,), split_model="plist", props=("C14", "C02", "C19"),
             note="RFC 3986 5.2.2 on the encoded components; bases of the known finding (no authority, rootless path) excluded"))

# ---------------------------------------------------------------- query operations (C12)
import collections as _collections


class _MyInt(int):
    pass


class _MyFloat(float):
    pass


class _MyStr(str):
    pass


_QV = CONST(0, 7, -3, 10 ** 30, True, False, None, 1.5, -0.0, 1e300, float("nan"), float("inf"), float("-inf"),
            b"x", bytearray(b"x"), (1,), [1], {"a": 1}, _MyInt(5), _MyFloat(2.5), _MyFloat("nan"), _MyFloat("-inf"),
            object(), 1 + 2j)
add(Contract("yarl._query:query_var", [("v", UNION(STR, _QV))], spec=spec_query.query_var,
             raises=(TypeError, ValueError), props=("C12", "C19"),
             note="type gate over the finite type lattice (every representative enumerated) and all strings"))

_QARG = UNION(OPT(STR), CONST(b"x", 5, bytearray(b"y")), "pairs", "querydict")
add(Contract("yarl._query:get_str_query_from_iterable", [("items", "pairs")], spec=spec_query.str_query_from_pairs,
             raises=(TypeError, ValueError), props=("C12", "C19"),
             note="pairs in order as key=value joined by '&', each side quoted as a query part (lists of 0, 1, 2 pairs, str / int values)"))
add(Contract("yarl._query:get_str_query_from_sequence_iterable", [("items", "seqpairs")], spec=spec_query.str_query_from_seq_pairs,
             raises=(TypeError, ValueError), props=("C12", "C19"),
             note="mapping items: a list / tuple value repeats the key (0, 1, 2 items; str, int, [str, str], (str, str) values)"))
add(Contract("yarl._url:URL.update_query", [("self", URLT), ("args", ("varargs", CONST(None, "", b"x", 5, 1.5)))],
             spec=spec_query.update_query_trivial, raises=(TypeError, ValueError), props=("C12", "C11", "C19"),
             note="only the argument forms that involve no multi-dict: None, '', wrong arity, non-query types"))
add(Contract("yarl._url:URL.with_query", [("self", URLT), ("args", ("varargs", _QARG))], spec=spec_query.with_query_args,
             raises=(TypeError, ValueError), props=("C12", "C11", "C19"),
             note="None and str arguments (mapping / sequence forms go through external multidict and are not under contract)"))
add(Contract("yarl._url:URL.extend_query", [("self", URLT), ("args", ("varargs", _QARG))], spec=spec_query.extend_query_args,
             raises=(TypeError, ValueError), props=("C12", "C11", "C19", "C02")))


# ---------------------------------------------------------------- sanity of the specification modules
def _no_shadowed_specs():
    """a specification function defined twice in one module silently replaces the first definition
    (it happened once: a new `authority` shadowed a helper of the same name) -- refuse to load"""
    import ast as _a
    import os as _o
    here = _o.path.dirname(_o.path.abspath(__file__))
    for fn in _o.listdir(here):
        if fn.startswith("spec_") and fn.endswith(".py"):
            names = [n.name for n in _a.parse(open(_o.path.join(here, fn)).read()).body if isinstance(n, _a.FunctionDef)]
            dup = sorted({n for n in names if names.count(n) > 1})
            if dup:
                raise RuntimeError(f"contracts/{fn}: specification functions defined twice: {dup}")


_no_shadowed_specs()
