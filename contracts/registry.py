"""Sidecar contracts: which real function is checked against which specification."""
from pyvc.verify import Contract, Cut, STR, INT, BOOL, OPT

from . import spec_parse

CONTRACTS = {}


def add(c):
    CONTRACTS[c.qual] = c
    return c


add(Contract(
    "yarl._parse:split_netloc", [("netloc", STR)], spec=spec_parse.split_netloc,
    raises=(ValueError,), props=("C07", "C17", "C19"),
    note="C07: split at last '@', first ':' of userinfo, ':' after host or ']'; C17: port *DIGIT 0..65535"))

add(Contract(
    "yarl._parse:_check_netloc", [("netloc", STR)], spec=spec_parse.check_netloc_nfkc,
    raises=(ValueError,), props=("C16", "C19")))

add(Contract(
    "yarl._parse:split_url", [("url", STR)], spec=spec_parse.split_url,
    raises=(ValueError,), props=("C07", "C19"),
    loops={1: "all_chars_in(__seq[:__k], SCHEME_TAIL)"},
    cuts=[
        Cut("scheme = netloc = query = fragment = ''", "cleaned", ["url == S.c"]),
        Cut("has_hash = '#' in url", "scheme",
            ["url == S.rest", "scheme == S.scheme", "netloc == ''", "query == ''", "fragment == ''"]),
        Cut("if has_hash:", "authority",
            ["url == S.rest", "scheme == S.scheme", "netloc == S.netloc", "query == ''", "fragment == ''",
             "has_hash == ('#' in S.rest)", "has_question_mark == ('?' in S.rest)"],
            types={"has_hash": "bool", "has_question_mark": "bool"}),
    ],
    note="RFC 3986 Appendix B on the cleaned input"))

add(Contract(
    "yarl._parse:unsplit_result",
    [("scheme", STR), ("netloc", STR), ("url", STR), ("query", STR), ("fragment", STR)],
    spec=spec_parse.unsplit_result, requires=spec_parse.unsplit_requires, props=("C07", "C03"),
    note="precondition from the call sites: a path under an authority is empty or rooted"))
