"""Sidecar contracts: which real function is checked against which specification."""
from pyvc.verify import Contract, STR, INT, BOOL, OPT

from . import spec_parse

CONTRACTS = {}


def add(c):
    CONTRACTS[c.qual] = c
    return c


add(Contract(
    "yarl._parse:split_netloc", [("netloc", STR)], spec=spec_parse.split_netloc,
    raises=(ValueError,), props=("C07", "C17", "C19"),
    note="C07: split at last '@', first ':' of userinfo, ':' after host or ']'; C17: port *DIGIT 0..65535"))

add(Contract(
    "yarl._parse:_check_netloc", [("netloc", STR)], spec=spec_parse.check_netloc_nfkc,
    raises=(ValueError,), props=("C16", "C19")))

add(Contract(
    "yarl._parse:split_url", [("url", STR)], spec=spec_parse.split_url,
    raises=(ValueError,), props=("C07", "C19"),
    loops={0: "all_chars_in(__seq[:__k], SCHEME_TAIL)"},
    note="RFC 3986 Appendix B on the cleaned input"))

add(Contract(
    "yarl._parse:unsplit_result",
    [("scheme", STR), ("netloc", STR), ("url", STR), ("query", STR), ("fragment", STR)],
    spec=spec_parse.unsplit_result, props=("C07", "C03")))
