"""Spec-vs-spec lemma for C15/C14, bounded: the segment form of RFC 3986 5.2.4
(spec_path.normalize_path_segments on the split of a rooted path) equals the literal string
algorithm (spec_path.remove_dot_segments).  Exhaustive over all segment sequences up to a
stated length over 7 segment kinds; involves no yarl code; labelled bounded, never counted as
proved."""
import itertools

from .finite import register
from . import spec_path

KINDS = (".", "..", "", "a", ".a", "a.", "...")


@register("C15", "C14")
def run(tier, seed):
    maxlen = 6 if tier == "quick" else 7
    cases = 0
    bad = None
    for L in range(0, maxlen + 1):
        for segs in itertools.product(KINDS, repeat=L):
            cases += 1
            path = "/" + "/".join(segs)
            want = spec_path.remove_dot_segments(path)
            got = "/" + "/".join(spec_path.normalize_path_segments(path[1:].split("/")))
            if got != want:
                bad = (path, got, want)
                break
        if bad:
            break
    return [{"name": f"bounded:segment form of RFC 3986 5.2.4 == literal string algorithm, rooted paths, <= {maxlen} segments over 7 kinds",
             "kind": "bounded", "status": "unsat" if bad is None else "sat", "backend": "finite", "bounded": True,
             "bound": f"all {cases} segment sequences of length <= {maxlen} over {list(KINDS)}", "where": "contracts/spec_path.py",
             "time_s": 0.0, "ground": cases, "function": "contracts.spec_path:remove_dot_segments",
             "info": {"counterexample": bad}, "replay": {"inputs": {"path": bad[0]}, "agrees": False} if bad else None}]
