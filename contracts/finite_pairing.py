"""Finite obligation for C06 ("supplied values read back unchanged"), spec against spec:
for every Unicode scalar value cp and every quoter/unquoter pairing the library uses for decoded
input, the reference decoding of the specification's unit for cp is the character itself.

   user, password   QUOTER            -> UNQUOTER
   path, name       PATH_QUOTER       -> PATH_UNQUOTER (unsafe '+')
   fragment         FRAGMENT_QUOTER   -> UNQUOTER

The non-requoting quoters are context free (a unit depends on one character), and the reference
decoder decodes a concatenation of complete UTF-8 sequences sequence by sequence, so the statement
for single characters extends to strings.  What links it to the code: the real quoters equal the
quoter specification (proved, C01/C05); the real unquoters equal the reference decoder only on the
bounded stand-in's domain (C06 stays at the exploration level).  Queries go through
urllib.parse.parse_qsl (external) and are not covered here.
"""
from __future__ import annotations

import multiprocessing as mp
import time

from .finite import register

PAIRS = (("QUOTER", {}), ("PATH_QUOTER", {"unsafe": "+"}), ("FRAGMENT_QUOTER", {}))


def _chunk(args):
    lo, hi = args
    from . import spec_quote
    from .registry import PY_QUOTERS
    from .bounded_worker import ref_unquote
    bad = None
    n = 0
    for name, cfg in PAIRS:
        q = PY_QUOTERS[name]
        for cp in range(lo, hi):
            if 0xD800 <= cp <= 0xDFFF:
                continue
            ch = chr(cp)
            n += 1
            unit = spec_quote.q_spec(q, ch)
            back = ref_unquote(unit, **cfg)
            if back != ch:
                return n, (name, cp, unit, back)
    return n, bad


@register("C06", "C02")
def run(tier, seed):
    t = time.time()
    N = 0x110000
    step = N // 64
    with mp.get_context("fork").Pool(16) as pool:
        res = pool.map(_chunk, [(lo, min(N, lo + step)) for lo in range(0, N, step)])
    n = sum(r[0] for r in res)
    bad = [r[1] for r in res if r[1] is not None]
    rec = {"name": "reference decoding of the quoter specification's unit for cp is chr(cp): every scalar value x "
                   "{QUOTER->UNQUOTER, PATH_QUOTER->PATH_UNQUOTER, FRAGMENT_QUOTER->UNQUOTER}",
           "kind": "finite", "status": "unsat" if not bad else "sat", "backend": "finite", "where": "contracts/spec_quote.py:q_spec",
           "time_s": round(time.time() - t, 2), "ground": n, "exhaustive": True, "function": "contracts.spec_quote:q_spec",
           "info": {"counterexample": bad[:1]}}
    if bad:
        name, cp, unit, back = bad[0]
        rec["replay"] = {"inputs": {"quoter": name, "code_point": cp, "text": chr(cp)}, "observed": f"unit {unit!r} decodes to {back!r}",
                         "agrees": False}
    return [rec]
