"""RFC 3986 character classes and the abstract (caller-side) contracts of the quoter and
unquoter instances of yarl/_quoters.py.

The sets below are written from RFC 3986 section 2.2/2.3/3.x -- not from the code:
    unreserved  = ALPHA / DIGIT / "-" / "." / "_" / "~"
    sub-delims  = "!" / "$" / "&" / "'" / "(" / ")" / "*" / "+" / "," / ";" / "="
    pchar       = unreserved / pct-encoded / sub-delims / ":" / "@"
    userinfo    = *( unreserved / pct-encoded / sub-delims / ":" )
    path        = *( pchar / "/" )        query = fragment = *( pchar / "/" / "?" )
"""
from string import ascii_letters, digits

UNRESERVED = ascii_letters + digits + "-._~"
SUB_DELIMS = "!$&'()*+,;="
UPPER_HEX = "0123456789ABCDEF"

LIT = {
    "user": UNRESERVED + SUB_DELIMS,
    "password": UNRESERVED + SUB_DELIMS + ":",
    "path": UNRESERVED + SUB_DELIMS + ":@/",
    "query": UNRESERVED + SUB_DELIMS + ":@/?",
    "fragment": UNRESERVED + SUB_DELIMS + ":@/?",
}

# which component each quoter instance of yarl/_quoters.py serves (from its call sites in
# yarl/_url.py, yarl/_parse.py, yarl/_query.py) and whether it reads its input as already
# encoded text (requote) or as decoded text
QUOTERS = {
    "QUOTER": ("user", False), "REQUOTER": ("user", True),
    "PATH_QUOTER": ("path", False), "PATH_REQUOTER": ("path", True),
    "QUERY_QUOTER": ("query", False), "QUERY_REQUOTER": ("query", True),
    "QUERY_PART_QUOTER": ("query", False),
    "FRAGMENT_QUOTER": ("fragment", False), "FRAGMENT_REQUOTER": ("fragment", True),
}


def out_alphabet(name):
    """every character a quoter may emit: the literal set of its component plus '%' and
    upper-case hex digits (C01: 'every % starts an escape of two uppercase hex digits, and the
    component contains only the characters RFC 3986 allows')"""
    comp, _ = QUOTERS[name]
    return "".join(sorted(set(LIT[comp] + "%" + UPPER_HEX)))
