"""RFC 3986 character classes and the abstract (caller-side) contracts of the quoter and
unquoter instances of yarl/_quoters.py.

The sets below are written from RFC 3986 section 2.2/2.3/3.x -- not from the code:
    unreserved  = ALPHA / DIGIT / "-" / "." / "_" / "~"
    sub-delims  = "!" / "$" / "&" / "'" / "(" / ")" / "*" / "+" / "," / ";" / "="
    pchar       = unreserved / pct-encoded / sub-delims / ":" / "@"
    userinfo    = *( unreserved / pct-encoded / sub-delims / ":" )
    path        = *( pchar / "/" )        query = fragment = *( pchar / "/" / "?" )
"""
from string import ascii_letters, digits

from .prims import all_chars_in

UNRESERVED = ascii_letters + digits + "-._~"
SUB_DELIMS = "!$&'()*+,;="
UPPER_HEX = "0123456789ABCDEF"

LIT = {
    "user": UNRESERVED + SUB_DELIMS,
    "password": UNRESERVED + SUB_DELIMS + ":",
    "path": UNRESERVED + SUB_DELIMS + ":@/",
    "query": UNRESERVED + SUB_DELIMS + ":@/?",
    "fragment": UNRESERVED + SUB_DELIMS + ":@/?",
}

# which component each quoter instance of yarl/_quoters.py serves (from its call sites in
# yarl/_url.py, yarl/_parse.py, yarl/_query.py) and whether it reads its input as already
# encoded text (requote) or as decoded text
QUOTERS = {
    "QUOTER": ("user", False), "REQUOTER": ("user", True),
    "PATH_QUOTER": ("path", False), "PATH_REQUOTER": ("path", True),
    "QUERY_QUOTER": ("query", False), "QUERY_REQUOTER": ("query", True),
    "QUERY_PART_QUOTER": ("query", False),
    "FRAGMENT_QUOTER": ("fragment", False), "FRAGMENT_REQUOTER": ("fragment", True),
}


def out_alphabet(name):
    """every character a quoter may emit: the literal set of its component plus '%' and
    upper-case hex digits (C01: 'every % starts an escape of two uppercase hex digits, and the
    component contains only the characters RFC 3986 allows')"""
    comp, _ = QUOTERS[name]
    return "".join(sorted(set(LIT[comp] + "%" + UPPER_HEX)))


# ---------------------------------------------------------------- token-level specification (DESIGN 4.2)
#
# A quoter reads its input as a sequence of tokens and writes the canonical spelling (unit) of
# each:   "%HH" (hex digits in either case, only when the quoter re-quotes already encoded
# text)  -> the byte 0xHH written literally if it is a literal of the component and not one of
# its protected delimiters, else "%HH" in upper case;   a "%" not followed by two hex digits,
# or met by a quoter of decoded text -> "%25";   a space in a query -> "+";   a literal of
# the component -> itself;   any other byte -> "%HH" upper case.

PROTECTED = {
    "QUOTER": "", "REQUOTER": "", "PATH_QUOTER": "/+", "PATH_REQUOTER": "/+",
    "QUERY_QUOTER": "=+&;", "QUERY_REQUOTER": "=+&;", "QUERY_PART_QUOTER": "",
    "FRAGMENT_QUOTER": "", "FRAGMENT_REQUOTER": "",
}
QS = {"QUERY_QUOTER", "QUERY_REQUOTER", "QUERY_PART_QUOTER"}


def literal_set(name):
    comp, _ = QUOTERS[name]
    s = LIT[comp]
    if name == "QUERY_PART_QUOTER":
        # keys and values: the pair / key-value delimiters themselves must be escaped (C12)
        s = "".join(c for c in s if c not in "=+&;")
    return s


INSTANCE_NAME = {}        # id(quoter instance) -> name in yarl/_quoters.py (filled by the registry)


def component_alphabet(quoter):
    """RFC 3986 literal set of the component the instance serves (what C01 allows there)"""
    return LIT[QUOTERS[INSTANCE_NAME[id(quoter)]][0]]


def config_of(quoter):
    """(literal set, protected delimiters, qs, requote) the specification assigns to an instance"""
    name = INSTANCE_NAME[id(quoter)]
    return (literal_set(name), PROTECTED[name], name in QS, QUOTERS[name][1])


def hexch(d):
    if d < 10:
        return d + 48
    return d + 55


def hexval(c):
    if 48 <= c and c <= 57:
        return c - 48
    if 65 <= c and c <= 70:
        return c - 55
    if 97 <= c and c <= 102:
        return c - 87
    return -1


def upper_byte(c):
    return c - 32 if (97 <= c and c <= 122) else c


def code_at(s, i):
    """code of element i of a str (code point) or bytes (byte)"""
    c = s[i]
    return c if isinstance(c, int) else ord(c)


def q_step(quoter, B, p):
    """(unit, consumed) for the token that starts at byte p of B"""
    lit_set, protected, qs, requote = config_of(quoter)
    n = len(B)
    ch = code_at(B, p)
    if requote and ch == 37:
        if p + 2 < n:
            h1 = hexval(code_at(B, p + 1))
            h2 = hexval(code_at(B, p + 2))
            if h1 >= 0 and h2 >= 0:
                v = h1 * 16 + h2
                if v < 128 and chr(v) in lit_set and not (chr(v) in protected):
                    return (v,), 3
                return (37, hexch(h1), hexch(h2)), 3
        return (37, 50, 53), 1
    if qs and ch == 32:
        return (43,), 1
    if ch < 128 and chr(ch) in lit_set:
        return (ch,), 1
    return (37, hexch(ch // 16), hexch(ch % 16)), 1


def q_spec(quoter, val):
    """the whole quoter, executable (replay oracle): canonical spelling of every token of the
    UTF-8 bytes of val (lone surrogates dropped)"""
    if val is None:
        return None
    if not isinstance(val, str):
        raise TypeError("Argument should be str")
    B = val.encode("utf8", errors="ignore")
    out = []
    p = 0
    while p < len(B):
        unit, k = q_step(quoter, B, p)
        out.extend(unit)
        p += k
    return bytes(out).decode("ascii")


def lemma_unit_alphabet(quoter, B, p):
    """C01: every unit is one literal of the component, or '%' followed by two upper-case hex
    digits -- so the output is ASCII, in the component's alphabet, and every '%' starts an escape"""
    allowed = component_alphabet(quoter)
    unit, k = q_step(quoter, B, p)
    if len(unit) == 1:
        return unit[0] < 128 and chr(unit[0]) in allowed and unit[0] != 37 and (k == 1 or k == 3)
    return (len(unit) == 3 and unit[0] == 37 and chr(unit[1]) in UPPER_HEX and chr(unit[2]) in UPPER_HEX
            and (k == 1 or k == 3))


def lemma_requires(quoter, B, p):
    return 0 <= p and p < len(B)


# ---------------------------------------------------------------- the compiled quoter works on code points

def pct(b):
    return (37, hexch(b // 16), hexch(b % 16))


def utf8_unit(cp):
    """percent-encoded UTF-8 bytes of a code point (RFC 3629 arithmetic); a lone surrogate has
    no encoding and is dropped"""
    if cp < 128:
        return pct(cp)
    if cp < 2048:
        return pct(192 + cp // 64) + pct(128 + cp % 64)
    if 55296 <= cp and cp <= 57343:
        return ()
    if cp < 65536:
        return pct(224 + cp // 4096) + pct(128 + (cp // 64) % 64) + pct(128 + cp % 64)
    return pct(240 + cp // 262144) + pct(128 + (cp // 4096) % 64) + pct(128 + (cp // 64) % 64) + pct(128 + cp % 64)


def q_step_cp(quoter, S, p):
    """(unit, consumed) for the token that starts at code point p of S: the byte-level step on
    ASCII characters, and the escapes of all UTF-8 bytes of a non-ASCII character at once"""
    ch = code_at(S, p)
    if ch < 128:
        return q_step(quoter, S, p)
    return utf8_unit(ch), 1


def slash_stable_name(name):
    """quoters that never produce a '/' the input does not have: all but the re-quoters of
    components in which '/' is an unprotected literal (they decode %2F)"""
    return not (QUOTERS[name][1] and "/" in literal_set(name) and "/" not in PROTECTED[name])


def is_slash_stable(quoter):
    return slash_stable_name(INSTANCE_NAME[id(quoter)])


def slash_stable(quoter, B, p):
    return 0 <= p and p < len(B) and is_slash_stable(quoter)


def lemma_no_new_slash(quoter, B, p):
    """C13 (with_name / with_suffix keep the number of segments): a unit contains '/' only when
    the consumed character is '/'"""
    unit, k = q_step(quoter, B, p)
    has = False
    for i in range(len(unit)):
        has = has or unit[i] == 47
    return (not has) or code_at(B, p) == 47


def skippable(quoter, ch):
    """a character that is its own canonical unit in every context: an ASCII literal of the
    component other than '%' (and, in a query, other than the space)"""
    lit_set, protected, qs, requote = config_of(quoter)
    return ch < 128 and chr(ch) in lit_set and ch != 37 and not (qs and ch == 32)


def skippable_codes(name):
    """the same set, enumerated (used by the engine-level postcondition of the fast path)"""
    lit_set = literal_set(name)
    return sorted(ord(c) for c in lit_set if ord(c) < 128 and c != "%" and not (name in QS and c == " "))


def skippable_text(quoter):
    return "".join(chr(c) for c in skippable_codes(INSTANCE_NAME[id(quoter)]))


def skippable_from(quoter, S, k):
    """every character of S from index k on is skippable (loop invariant of the fast-path scan)"""
    return all_chars_in(S[k:], skippable_text(quoter))


def lemma_skippable_is_fixed(quoter, B, p):
    """C01/C04/C05 (fast path of the compiled quoter): text made of skippable characters only is
    left alone by the specification too -- each of them is a token of its own whose unit is itself"""
    if not skippable(quoter, code_at(B, p)):
        return True
    unit, k = q_step(quoter, B, p)
    return k == 1 and unit_is_input(unit, B, p, k)


def in_range(quoter, B, p):
    return 0 <= p and p < len(B)


def do_quote_requires(self, val, length, kind, data, writer):
    return length == len(val)


def unit_is_input(unit, S, p, consumed):
    """the token's canonical spelling is the text that was consumed (the token changes nothing)"""
    if len(unit) != consumed:
        return False
    ok = True
    for i in range(len(unit)):
        ok = ok and unit[i] == code_at(S, p + i)
    return ok


def surrogate_in_escape_window(text):
    """known finding (C05): a lone surrogate within the two characters after a '%'.  The
    pure-Python quoter drops surrogates before it looks for the hex digits, the compiled quoter
    looks first; the two disagree exactly on such texts (under a re-quoting quoter)."""
    for i, c in enumerate(text):
        if c == "%" and any(0xD800 <= ord(x) <= 0xDFFF for x in text[i + 1:i + 3]):
            return True
    return False


# ---------------------------------------------------------------- lemmas over the step function (C02, C03, C04)

def canonical_unit_at(quoter, B, p):
    """the bytes at p spell a canonical unit of this quoter's component: a literal of the
    component that is not '%' (and, in a query, not a space), or '%HH' in upper case whose value
    must be escaped there or is a protected delimiter"""
    lit_set, protected, qs, requote = config_of(quoter)
    n = len(B)
    ch = code_at(B, p)
    if ch == 37:
        if p + 2 < n:
            a = code_at(B, p + 1)
            b = code_at(B, p + 2)
            if chr(a) in UPPER_HEX and chr(b) in UPPER_HEX and a < 128 and b < 128:
                v = hexval(a) * 16 + hexval(b)
                return not (v < 128 and chr(v) in lit_set and not (chr(v) in protected))
        return False
    return ch < 128 and chr(ch) in lit_set


def lemma_canonical_is_fixed(quoter, B, p):
    """C03/C04 (idempotence, identity): on text that is already canonical a re-quoting quoter
    emits exactly the bytes it consumes"""
    if not canonical_unit_at(quoter, B, p):
        return True
    unit, k = q_step(quoter, B, p)
    return unit_is_input(unit, B, p, k)


def requoting(quoter, B, p):
    return 0 <= p and p < len(B) and config_of(quoter)[3]


def token_value(unit):
    """the byte a unit stands for, and whether it is written as an active (literal) character"""
    if len(unit) == 3:
        return hexval(unit[1]) * 16 + hexval(unit[2]), False
    return unit[0], True


def lemma_value_preserved(quoter, B, p):
    """C02: the unit decodes to the byte the consumed text decodes to; an escaped protected
    delimiter stays escaped and a literal one stays literal"""
    lit_set, protected, qs, requote = config_of(quoter)
    n = len(B)
    ch = code_at(B, p)
    unit, k = q_step(quoter, B, p)
    v, literal = token_value(unit)
    if k == 3:
        src = hexval(code_at(B, p + 1)) * 16 + hexval(code_at(B, p + 2))
        return v == src and (not (src < 128 and chr(src) in protected) or not literal)
    if qs and ch == 32:
        return unit == (43,)
    return v == ch and (not (ch < 128 and chr(ch) in protected) or literal)


def lemma_output_is_canonical(quoter, B, p, C, q):
    """C03: what a quoter writes is canonical text for the re-quoting quoter of the same
    component -- each unit it emits, placed anywhere (C at q), is a canonical unit there"""
    unit, k = q_step(quoter, B, p)
    if len(unit) == 1:
        return code_at(C, q) != unit[0] or canonical_unit_at(requoter_of(quoter), C, q)
    if not (q + 2 < len(C) and code_at(C, q) == unit[0] and code_at(C, q + 1) == unit[1] and code_at(C, q + 2) == unit[2]):
        return True
    return canonical_unit_at(requoter_of(quoter), C, q)


def requoter_of(quoter):
    """the re-quoting instance that serves the same component"""
    comp = QUOTERS[INSTANCE_NAME[id(quoter)]][0]
    qs = INSTANCE_NAME[id(quoter)] in QS
    for name, (c, rq) in QUOTERS.items():
        if c == comp and rq and (name in QS) == qs:
            for inst_id, nm in INSTANCE_NAME.items():
                if nm == name and type(INSTANCE_OBJ[inst_id]) is type(quoter):
                    return INSTANCE_OBJ[inst_id]
    raise KeyError(comp)


INSTANCE_OBJ = {}


def lemma_out_requires(quoter, B, p, C, q):
    return 0 <= p and p < len(B) and 0 <= q and q < len(C) and quoter_name(quoter) != "QUERY_PART_QUOTER"


def quoter_name(quoter):
    return INSTANCE_NAME[id(quoter)]


# ---------------------------------------------------------------- type dispatch of the compiled __call__ methods

def c_inner(self, val):
    """the method __call__ delegates to (its own contract decides what it returns); natively the real call"""
    name = type(self).__name__
    return self._do_quote_or_skip(val) if name == "_Quoter" else self._do_unquote(val)


def c_call(self, val):
    """C19 / C05: None is passed through, a str (or an instance of a subclass, converted) is handed to
    the worker method, anything else is a TypeError"""
    if val is None:
        return None
    if not isinstance(val, str):
        raise TypeError("Argument should be str")
    return c_inner(self, val)
