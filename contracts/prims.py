"""Specification primitives: the vocabulary the executable specifications are written in.
Each has this native CPython definition (used when a specification is *run*, e.g. to judge
a replayed counterexample) and a symbolic definition in pyvc/lib.py (used when the
specification is *proved against*).  pyvc/conformance.py cross-checks the two."""
import re
import unicodedata


def first_of(s, chars, start=0):
    """smallest index i >= start with s[i] in chars; len(s) if there is none"""
    for i in range(min(start, len(s)), len(s)):
        if s[i] in chars:
            return i
    return len(s)


def first_not_of(s, chars):
    for i in range(len(s)):
        if s[i] not in chars:
            return i
    return len(s)


def last_index(s, ch):
    return s.rfind(ch)


def all_chars_in(s, chars):
    return all(c in chars for c in s)


def lower_ascii(s):
    """lower-casing of a string (the specifications only apply it to ASCII text)"""
    return s.lower()


def remove_char(s, c):
    return s.replace(c, "")


def is_ascii_digits(s):
    return len(s) > 0 and all("0" <= c <= "9" for c in s)


def dec_value(s):
    v = 0
    for c in s:
        v = v * 10 + (ord(c) - 48)
    return v


def re_match_(pattern, s):
    return re.match(pattern, s) is not None


def nfkc(s):
    return unicodedata.normalize("NFKC", s)


def CUT(name):
    """marker of a cut point in a specification (no effect when the specification is run)"""
    return None


def hash_parts(*parts):
    """hash of the tuple of the given strings"""
    return hash(tuple(parts))


def segs_no_dots(segs):
    return all(s not in (".", "..") for s in segs)


def segs_no_dots_upto(segs, k):
    return all(s not in (".", "..") for s in segs[:k])


def segs_prefix_equal(a, b, k):
    return list(a) == list(b[:k])


def segs_step(old, seg, new):
    old, new = list(old), list(new)
    if seg == "..":
        return new == (old[:-1] if old else old)
    if seg == ".":
        return new == old
    return new == old + [seg]


# ---- host canonicalisation (C16): library functions behind opaque functional symbols

REGNAME_LOWER = "abcdefghijklmnopqrstuvwxyz0123456789-._~!$&'()*+,;="
HEX_LOWER = "0123456789abcdef"


def regname_bad_at(s):
    """first index of s that is not part of an RFC 3986 reg-name in lower case
    (unreserved / sub-delims / '%' followed by two lower-case hex digits); -1 if none"""
    for i, c in enumerate(s):
        if c == "%":
            if not (i + 2 < len(s) and s[i + 1] in HEX_LOWER and s[i + 2] in HEX_LOWER):
                return i
        elif c not in REGNAME_LOWER:
            return i
    return -1


def is_udigit(c):
    """str.isdigit() of one character (Unicode decimal/digit property)"""
    return c.isdigit()


def is_lower_ascii(s):
    return s.isascii() and s == s.lower()


def ip_ok(s):
    from ipaddress import ip_address
    try:
        ip_address(s)
    except ValueError:
        return False
    return True


def ip_version(s):
    from ipaddress import ip_address
    return ip_address(s).version


def ip_compressed(s):
    from ipaddress import ip_address
    return ip_address(s).compressed


def idna2008_ok(s):
    import idna
    try:
        idna.encode(s, uts46=True)
    except UnicodeError:
        return False
    return True


def idna2008(s):
    import idna
    return idna.encode(s, uts46=True).decode("ascii")


def idna2003_ok(s):
    try:
        s.encode("idna")
    except UnicodeError:
        return False
    return True


def idna2003(s):
    return s.encode("idna").decode("ascii")
