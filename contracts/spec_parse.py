"""Executable specifications of yarl/_parse.py, written from RFC 3986 (Appendix B, section 3.1,
3.2) and the statements of C07 / C17 / C19 -- not from the code.  They are ordinary Python
(run natively to judge replays) restricted to the verified subset (run symbolically by pyvc).
"""
from string import ascii_letters, digits
from urllib.parse import uses_netloc

from yarl._quoters import (FRAGMENT_QUOTER, FRAGMENT_REQUOTER, PATH_QUOTER, PATH_REQUOTER, QUERY_QUOTER,
                           QUERY_REQUOTER, QUOTER, REQUOTER)

from .prims import (CUT, all_chars_in, dec_value, first_not_of, first_of, is_ascii_digits, last_index,
                    lower_ascii, nfkc, re_match_, remove_char)

# C07: "after stripping leading C0-control/space characters and removing tab, CR and LF"
C0_CONTROL_OR_SPACE = "".join(chr(i) for i in range(0x20 + 1))
ALPHA = ascii_letters
SCHEME_TAIL = ascii_letters + digits + "+-."      # RFC 3986 3.1
IPVFUTURE = r"\Av[a-fA-F0-9]+\..+\Z"              # RFC 3986 3.2.2 (as WHATWG/urllib read it)
MAX_INT_DIGITS = 4300                             # CPython int<->str conversion limit
USES_AUTHORITY = frozenset(uses_netloc)           # urllib's registry of schemes with an authority


def clean(url):
    url = url[first_not_of(url, C0_CONTROL_OR_SPACE):]
    if "\t" in url:
        url = remove_char(url, "\t")
    if "\r" in url:
        url = remove_char(url, "\r")
    if "\n" in url:
        url = remove_char(url, "\n")
    return url


def check_brackets(netloc):
    """RFC 3986 3.2.2: brackets only around an IP-literal (IPv6address / IPvFuture)"""
    has_l = "[" in netloc
    has_r = "]" in netloc
    if has_l != has_r:
        raise ValueError("Invalid IPv6 URL")
    if has_l:
        after = netloc[first_of(netloc, "[") + 1:]
        host = after[:first_of(after, "]")]
        if host[:1] == "v":
            if not re_match_(IPVFUTURE, host):
                raise ValueError("IPvFuture address is invalid")
        elif ":" not in host:
            raise ValueError("An IPv4 address cannot be in brackets")


def check_netloc_nfkc(netloc):
    """urllib's NFKC screen: the delimiters already present are ignored, the rest is
    normalised; a delimiter that appears only after normalisation is an error"""
    n = netloc
    if "@" in n:
        n = remove_char(n, "@")
    if ":" in n:
        n = remove_char(n, ":")
    if "#" in n:
        n = remove_char(n, "#")
    if "?" in n:
        n = remove_char(n, "?")
    if "[" in n:
        n = remove_char(n, "[")
    if "]" in n:
        n = remove_char(n, "]")
    normalized = nfkc(n)
    if n == normalized:
        return None
    # the property lists / ? # @ : ; brackets are screened as well since the fix of the fullwidth
    # bracket defect (a superset of what C16 demands)
    if ("/" in normalized or "?" in normalized or "#" in normalized or "@" in normalized or ":" in normalized
            or "[" in normalized or "]" in normalized):
        raise ValueError("netloc contains invalid characters under NFKC normalization")
    return None


def split_url(url):
    """RFC 3986 Appendix B:  ^(([^:/?#]+):)?(//([^/?#]*))?([^?#]*)(\\?([^#]*))?(#(.*))?
    with the scheme group restricted to RFC 3986 3.1 (ALPHA *( ALPHA / DIGIT / + - . ))
    and reported lower-cased.  The CUT markers are the intermediate assertions of the proof
    (they have no effect when the specification is run)."""
    c = clean(url)
    CUT("cleaned")
    # group 2: the scheme
    scheme = ""
    rest = c
    i = first_of(c, ":/?#")
    if 0 < i and i < len(c) and c[i] == ":" and c[0] in ALPHA and all_chars_in(c[1:i], SCHEME_TAIL):
        scheme = lower_ascii(c[:i])
        rest = c[i + 1:]
    CUT("scheme")
    # group 4: the authority
    netloc = ""
    if rest[:2] == "//":
        j = first_of(rest, "/?#", 2)
        netloc = rest[2:j]
        rest = rest[j:]
        check_brackets(netloc)
    CUT("authority")
    # groups 5, 7, 9: path, query, fragment
    k = first_of(rest, "?#")
    path = rest[:k]
    query = ""
    m = k
    if k < len(rest) and rest[k] == "?":
        m = first_of(rest, "#", k + 1)
        query = rest[k + 1:m]
    fragment = rest[m + 1:]
    if netloc and not netloc.isascii():
        check_netloc_nfkc(netloc)
    return scheme, netloc, path, query, fragment


def split_netloc(netloc):
    """C07: split at the last '@', the first ':' of the userinfo, and the ':' after the host
    or closing ']'.  C17: the port is *DIGIT with value 0..65535, anything else ValueError."""
    at = last_index(netloc, "@")
    if at < 0:
        user = None
        password = None
        hostinfo = netloc
    else:
        userinfo = netloc[:at]
        hostinfo = netloc[at + 1:]
        c = first_of(userinfo, ":")
        if c < len(userinfo):
            user = userinfo[:c]
            password = userinfo[c + 1:]
        else:
            user = userinfo
            password = None
    lb = first_of(hostinfo, "[")
    if lb < len(hostinfo):
        after = hostinfo[lb + 1:]
        rb = first_of(after, "]")
        host = after[:rb]
        tail = after[rb + 1:]
        port_text = tail[first_of(tail, ":") + 1:]
    else:
        hc = first_of(hostinfo, ":")
        host = hostinfo[:hc]
        port_text = hostinfo[hc + 1:]
    if port_text == "":
        port = None
    else:
        if not is_ascii_digits(port_text):
            raise ValueError("port is not *DIGIT")
        if len(port_text) > MAX_INT_DIGITS:
            raise ValueError("port has more digits than CPython converts")
        port = dec_value(port_text)
        if port > 65535:
            raise ValueError("port out of range")
    return (user if user else None, password, host if host else None, port)


def split_netloc_ensures(netloc, result):
    """facts every caller may rely on: a port is in range (C17), user and host are never the
    empty string, and without an authority there is nothing"""
    user, password, host, port = result
    return ((port is None or (0 <= port and port <= 65535))
            and (user is None or user != "")
            and (host is None or host != "")
            and (netloc != "" or (user is None and password is None and host is None and port is None)))


def unsplit_requires(scheme, netloc, url, query, fragment):
    """structural invariant of the stored parts (established by every producer except
    encoded=True garbage): the path of a URL with an authority is empty or starts with '/'"""
    return not netloc or not url or url[0] == "/"


def unsplit_result(scheme, netloc, url, query, fragment):
    """RFC 3986 5.3 recomposition, with urllib's rule that a scheme that uses an authority
    (or a path starting with //) gets an explicit, possibly empty, authority."""
    if netloc or (scheme and scheme in USES_AUTHORITY) or url[:2] == "//":
        if url and url[:1] != "/":
            url = "/" + url
        url = "//" + netloc + url
    if scheme:
        url = scheme + ":" + url
    if query:
        url = url + "?" + query
    if fragment:
        url = url + "#" + fragment
    return url


def make_netloc_requires(user, password, host, port, encode=False):
    """call-site precondition: the port is absent or a valid port number (C17/C19: every
    producer checks the range before assembling the authority)"""
    return port is None or 0 <= port <= 65535


def make_netloc(user, password, host, port, encode=False):
    """RFC 3986 3.2:  authority = [ userinfo "@" ] host [ ":" port ],
    userinfo = user [ ":" password ]; with encode the user and password are quoted as
    userinfo text.  No host, no authority."""
    if host is None:
        return ""
    hostport = host
    if port is not None:
        hostport = host + ":" + str(port)
    if user is None and password is None:
        return hostport
    u = user if user else ""
    if encode and u:
        u = QUOTER(u)
    userinfo = u
    if password is not None:
        userinfo = u + ":" + (QUOTER(password) if encode else password)
    if userinfo:
        return userinfo + "@" + hostport
    return hostport


# ---------------------------------------------------------------- lemma: authority round trip

def host_text_ok(host):
    """a host as it is written in an authority: an IP-literal in brackets, or text free of
    the authority delimiters"""
    br = host[:1] == "["
    return ((br and len(host) >= 2 and host[-1:] == "]" and not ("]" in host[1:-1]) and not ("@" in host))
            or (not br and not (":" in host) and not ("@" in host) and not ("[" in host) and not ("]" in host)))


def netloc_parts_ok(user, password, host, port):
    return ((user is None or not (":" in user))
            and host_text_ok(host)
            and (port is None or (0 <= port and port <= 65535)))


def unbracket(host):
    if host[:1] == "[":
        return host[1:-1]
    return host


def lemma_netloc_roundtrip(user, password, host, port):
    """C03/C09/C11: re-parsing an authority assembled from canonical parts gives the parts back
    (an empty user or host reads back as absent)"""
    h = unbracket(host)
    return split_netloc(make_netloc(user, password, host, port)) == (
        user if user else None, password, h if h else None, port)


# ---------------------------------------------------------------- lemma: parse . unparse (C03)

LOWER_SCHEME_TAIL = "abcdefghijklmnopqrstuvwxyz" + digits + "+-."
CTL3 = "\t\r\n"


def parts_wellformed(scheme, netloc, path, query, fragment):
    """structural invariant of the five stored parts of a URL the library produces from valid
    input (RFC-valid lower-case scheme, delimiters only where the grammar puts them)"""
    first = first_of(path, "/")
    return ((scheme == "" or (scheme[0] in "abcdefghijklmnopqrstuvwxyz" and all_chars_in(scheme[1:], LOWER_SCHEME_TAIL)))
            and first_of(netloc, "/?#" + CTL3) == len(netloc) and netloc.isascii()
            and not ("[" in netloc) and not ("]" in netloc)
            and first_of(path, "?#" + CTL3) == len(path)
            and first_of(query, "#" + CTL3) == len(query)
            and first_of(fragment, CTL3) == len(fragment)
            and (netloc == "" or path == "" or path[0] == "/")
            and (netloc != "" or path[:2] != "//")
            # RFC 3986 4.2: a rootless path of a reference without scheme and authority has no ':' in
            # its first segment, and (yarl strips them) does not start with a C0 control or space
            and (scheme != "" or netloc != "" or (first_of(path[:first], ":") == first
                                                   and (path == "" or not (path[0] in C0_CONTROL_OR_SPACE))))
            and (scheme != "" or netloc != "" or path != "" or query == "" or not (query[0] in C0_CONTROL_OR_SPACE))
            # urlunsplit roots the path of a scheme that uses an authority: excluded (known finding)
            and (not (scheme in USES_AUTHORITY) or netloc != "" or path == "" or path[0] == "/"))


def lemma_split_unsplit(scheme, netloc, path, query, fragment):
    """C03: the string form of well-formed parts parses back into the same parts (an empty
    path before a query/fragment is written as it is stored)"""
    return split_url(unsplit_result(scheme, netloc, path, query, fragment)) == (scheme, netloc, path, query, fragment)
