"""Finite obligations of the compiled quoter, decided by *exhaustive* evaluation of the real
(mechanically rewritten, see pyvc/pyxfront.py) functions over their complete, finite input
domains.  They justify the abstract contracts that the symbolic proof of _do_quote uses for
_write_pct and _write_utf8 at their call sites.

  * _to_hex(v)            all 16 nibbles
  * _from_hex / _restore_ch / _is_lower_hex   all 128 x 128 ASCII pairs + representatives >= 128
  * _write_pct(w, ch, c)  all 256 bytes x both flags: appends '%HH' (upper case), flag or-ed
  * _write_utf8(w, cp)    all 1 114 112 code points: appends the escapes of the RFC 3629 bytes,
                          nothing for a lone surrogate, and sets the changed flag
"""
from __future__ import annotations

import multiprocessing as mp
import time

from .finite import register


def _rec(name, ok, where, detail, cases, replay=None, t=0.0):
    r = {"name": name, "kind": "finite", "status": "unsat" if ok else "sat", "backend": "finite",
         "where": where, "time_s": round(t, 3), "ground": cases, "info": {"detail": detail, "cases": cases},
         "function": "yarl._quoting_c_pyx:" + where, "exhaustive": True}
    if replay is not None:
        r["replay"] = replay
    return r


def _mod():
    from pyvc import pyxfront
    import sys
    m = sys.modules.get(pyxfront.MODNAME)
    if m is None:
        m, _, _ = pyxfront.load()
    return m


def _fresh_writer(m):
    w = m.Writer()
    m._init_writer(w)
    return w


def _out(w):
    return [c if isinstance(c, int) else ord(c) for c in w.buf[:w.pos]]


def _utf8_range(args):
    lo, hi = args
    from . import spec_quote
    m = _mod()
    bad = None
    for cp in range(lo, hi):
        w = _fresh_writer(m)
        rc = m._write_utf8(w, cp)
        want = list(spec_quote.utf8_unit(cp))
        if rc != 0 or _out(w) != want or not w.changed:
            bad = (cp, rc, _out(w), want, bool(w.changed))
            break
    return bad


@register("C05", "C01", "C02", "C06", "C18", "C19")
def run(tier, seed):
    from . import spec_quote
    out = []
    try:
        m = _mod()
    except Exception as e:       # the front end cannot read the .pyx: undecided, not a violation
        return [{"name": "pyx-front-end", "kind": "finite", "status": "unknown", "backend": "finite",
                 "where": "_quoting_c.pyx", "time_s": 0, "ground": 0, "info": {"detail": str(e)}}]
    t = time.time()
    bad = [v for v in range(16) if m._to_hex(v) != spec_quote.hexch(v)]
    out.append(_rec("_to_hex(v) == upper-case hex digit, all 16 nibbles", not bad, "_to_hex", str(bad[:3]), 16, t=time.time() - t))
    t = time.time()
    bad = []
    reps = list(range(128)) + [128, 255, 0x100, 0xD800, 0x10FFFF]
    from pyvc.pyxfront import Ch
    for a in reps:
        if m._from_hex(Ch(a)) != spec_quote.hexval(a):
            bad.append(("from_hex", a))
        if bool(m._is_lower_hex(Ch(a))) != (97 <= a <= 102):
            bad.append(("is_lower_hex", a))
        for b in reps:
            h1, h2 = spec_quote.hexval(a), spec_quote.hexval(b)
            want = (h1 * 16 + h2) if (h1 >= 0 and h2 >= 0) else (1 << 32) - 1
            if m._restore_ch(Ch(a), Ch(b)) != want:
                bad.append(("restore_ch", a, b))
    out.append(_rec("_from_hex/_is_lower_hex/_restore_ch == hex value (or -1), all ASCII pairs + non-ASCII representatives",
                    not bad, "_restore_ch", str(bad[:3]), len(reps) ** 2, t=time.time() - t))
    t = time.time()
    bad = []
    for ch in range(256):
        for flag in (0, 1):
            for pre in (0, 1):
                w = _fresh_writer(m)
                w.changed = pre
                rc = m._write_pct(w, ch, flag)
                if rc != 0 or _out(w) != list(spec_quote.pct(ch)) or bool(w.changed) != bool(pre or flag):
                    bad.append((ch, flag, pre, rc, _out(w)))
    out.append(_rec("_write_pct(w, ch, c) appends '%HH' upper case and or-s the flag, all 256 bytes x flags",
                    not bad, "_write_pct", str(bad[:3]), 1024,
                    replay={"inputs": {"ch": bad[0][0]}, "agrees": False} if bad else None, t=time.time() - t))
    t = time.time()
    N = 0x110000
    step = N // 64
    ranges = [(lo, min(N, lo + step)) for lo in range(0, N, step)]
    with mp.get_context("fork").Pool(16) as pool:
        res = pool.map(_utf8_range, ranges)
    bad = [r for r in res if r is not None]
    detail = "" if not bad else (f"code point U+{bad[0][0]:04X}: returned {bad[0][1]}, wrote {bytes(bad[0][2])!r}, "
                                 f"specified {bytes(bad[0][3])!r}, changed={bad[0][4]}")
    out.append(_rec("_write_utf8(w, cp) appends the escapes of the RFC 3629 bytes (nothing for a surrogate) and sets "
                    "changed, all 1 114 112 code points", not bad, "_write_utf8", detail, N,
                    replay={"inputs": {"code_point": bad[0][0], "text": chr(bad[0][0])}, "observed": detail,
                            "agrees": False} if bad else None, t=time.time() - t))
    out.append(_writer_frame(m))
    out.append(_error_convention())
    return out


def _error_convention():
    """static obligation on the .pyx text (the rewriter drops `noexcept`, so it is checked here):
    a cdef function that can set an exception -- it calls PyErr_*, has a `raise`, or calls such a
    function -- is not declared `noexcept` (Cython would print and swallow the exception and the
    caller would continue with a failed write)"""
    import os
    import re
    t = time.time()
    path = os.path.join(os.environ.get("PYVC_REPO", "/repo"), "yarl", "_quoting_c.pyx")
    src = open(path).read()
    funcs = {}
    cur = None
    for line in src.split("\n"):
        mm = re.match(r"\s*(cdef|def)\s+(?:inline\s+)?(?:[\w\s\*]+?\s+)?\*?(\w+)\s*\(", line)
        if mm and not line.strip().startswith(("cdef struct", "cdef class")):
            cur = mm.group(2)
            funcs[cur] = {"head": line, "body": []}
            continue
        if cur is not None:
            funcs[cur]["body"].append(line)
    # multi-line heads: join until ':' ends the signature
    for name, f in funcs.items():
        head = f["head"]
        i = 0
        while not head.rstrip().endswith(":") and i < len(f["body"]):
            head += " " + f["body"][i].strip()
            i += 1
        f["head"] = head
    can_raise = {n for n, f in funcs.items() if any(re.search(r"PyErr_\w+\(|\braise\b", b) for b in f["body"])}
    changed = True
    while changed:
        changed = False
        for n, f in funcs.items():
            if n in can_raise:
                continue
            if any(re.search(r"\b" + re.escape(c) + r"\(", b) for b in f["body"] for c in can_raise):
                can_raise.add(n)
                changed = True
    bad = sorted(n for n in can_raise if "noexcept" in funcs[n]["head"])
    r = _rec("no function that can set an exception is declared noexcept (error-return convention of the writer helpers)",
             not bad, "_write_char", ", ".join(bad), len(funcs), t=time.time() - t)
    r["kind"] = "static"
    r["backend"] = "static"
    if bad:
        r["replay"] = {"inputs": {"functions": bad}, "observed": "declared noexcept but can set an exception", "agrees": False}
    return r


def _writer_frame(m):
    """static obligation: the fields of a Writer are assigned only by _init_writer and
    _write_char (so the Writer invariant proved for _write_char holds after _do_quote, which is
    what _do_quote_or_skip relies on when it releases the buffer)"""
    import ast
    t = time.time()
    tree = ast.parse(m.__pyx_text__)
    bad = []
    allowed = {"_init_writer", "_write_char"}

    def visit(fn):
        for node in ast.walk(fn):
            targets = []
            if isinstance(node, ast.Assign):
                targets = node.targets
            elif isinstance(node, (ast.AugAssign, ast.AnnAssign)):
                targets = [node.target]
            for tg in targets:
                for sub in ast.walk(tg):
                    if isinstance(sub, ast.Attribute) and isinstance(sub.value, ast.Name) and sub.value.id == "writer" \
                            and sub.attr in ("buf", "size", "pos", "changed"):
                        if fn.name not in allowed and not (fn.name == "_write_utf8" and sub.attr == "changed"):
                            bad.append(f"{fn.name}: writer.{sub.attr} (line {node.lineno})")
    for node in ast.walk(tree):
        if isinstance(node, ast.FunctionDef):
            visit(node)
    r = _rec("Writer fields are assigned only in _init_writer / _write_char (and the changed flag in _write_utf8)",
             not bad, "Writer", "; ".join(bad[:3]), 1, t=time.time() - t)
    r["kind"] = "static"
    r["backend"] = "static"
    return r
